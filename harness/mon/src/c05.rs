//! C05: filter logic (Boolean algebra, precedence), existence tests on falsy/empty values,
//! @ / $ scoping at every nesting level. Oracles: reference evaluator for kept children in
//! order; oracle-free Boolean laws between equivalent formulas; H2 hook events (every per-child
//! decision at every nesting level against the reference's truth value for that child).

use crate::convert;
use crate::ctx::{par_run, Acc, Ctx, Evidence, Tier};
use crate::findings::{arm, Armed};
use crate::judge::{self, judge_query, Verdict, NODES, ORDER};
use crate::libapi::{self, Doc, LibOutcome};
use crate::trace::with_events;
use jsonpath_rust::verif::Event;
use oracle::ast::*;
use oracle::eval::Ctx as RefCtx;
use oracle::gen;
use oracle::json::J;
use oracle::parse::analyze;
use oracle::render::{render, Spelling};
use oracle::rng::Rng;
use serde_json::json;
use std::collections::HashMap;

fn t(q: Query) -> Basic {
    Basic::Test { not: false, test: TestExpr::Query(q) }
}
fn neg(b: &Basic) -> Basic {
    match b {
        Basic::Test { not, test } => Basic::Test { not: !*not, test: test.clone() },
        Basic::Paren { not, inner } => Basic::Paren { not: !*not, inner: inner.clone() },
        c => Basic::Paren { not: true, inner: Or::single(c.clone()) },
    }
}
fn paren(o: Or) -> Basic {
    Basic::Paren { not: false, inner: o }
}

fn atoms() -> Vec<Basic> {
    let cur = |n: &str| Query::current(vec![gen::name_seg(n)]);
    vec![
        t(cur("a")),
        t(cur("b")),
        Basic::Cmp { lhs: gen::cur_name("n"), op: CmpOp::Eq, rhs: gen::lit_int(1) },
        Basic::Cmp { lhs: gen::cur_name("n"), op: CmpOp::Lt, rhs: gen::root_name("k") },
        Basic::Test { not: false, test: TestExpr::Func(FuncCall { name: "match".into(), args: vec![Arg::Query(cur("s")), Arg::Lit(Literal::Str("x".into()))] }) },
        // operands that do not mention @ at all (true resp. false for the carrier document)
        t(Query::root(vec![gen::name_seg("k")])),
        Basic::Cmp { lhs: gen::root_name("k"), op: CmpOp::Eq, rhs: gen::lit_int(3) },
        Basic::Cmp { lhs: Comparable::Func(FuncCall { name: "count".into(), args: vec![Arg::Query(Query::current(vec![Segment::child(Selector::Wildcard)]))] }), op: CmpOp::Gt, rhs: gen::lit_int(2) },
    ]
}

/// carrier: children realise the valuations of the atoms; as array elements and member values
fn carrier() -> J {
    let mut kids = vec![];
    let avals: Vec<Option<J>> = vec![None, Some(J::Null), Some(J::Bool(false)), Some(J::str("")), Some(J::Arr(vec![]))];
    let bvals: Vec<Option<J>> = vec![None, Some(J::int(0)), Some(J::Obj(vec![]))];
    let nvals: Vec<Option<J>> = vec![None, Some(J::int(1)), Some(J::int(2)), Some(J::str("1"))];
    let svals: Vec<Option<J>> = vec![Some(J::str("x")), Some(J::str("xy")), None];
    for a in &avals {
        for b in &bvals {
            for n in &nvals {
                for s in &svals {
                    let mut o = vec![];
                    for (k, v) in [("a", a), ("b", b), ("n", n), ("s", s)] {
                        if let Some(v) = v {
                            o.push((k.to_string(), v.clone()));
                        }
                    }
                    kids.push(J::Obj(o));
                }
            }
        }
    }
    // scalars and arrays as children too (filters applied to them select nothing below)
    kids.push(J::int(1));
    kids.push(J::Null);
    kids.push(J::Arr(vec![J::int(1), J::int(2), J::int(3)]));
    let obj = J::Obj(kids.iter().enumerate().map(|(i, c)| (format!("m{:03}", i), c.clone())).collect());
    J::Obj(vec![("k".into(), J::int(2)), ("arr".into(), J::Arr(kids)), ("obj".into(), obj)])
}

fn formulas(tier: Tier, rng: &mut Rng) -> Vec<Or> {
    let at = atoms();
    let mut l0: Vec<Basic> = at.clone();
    l0.extend(at.iter().map(neg));
    let mut out: Vec<Or> = l0.iter().map(|b| Or::single(b.clone())).collect();
    let mut l1: Vec<Or> = vec![];
    for x in &l0 {
        for y in &l0 {
            l1.push(Or(vec![And(vec![x.clone(), y.clone()])]));
            l1.push(Or(vec![And(vec![x.clone()]), And(vec![y.clone()])]));
        }
    }
    // precedence mixes without parentheses
    for _ in 0..tier.pick(600, 4000) {
        let (x, y, z, w) = (rng.pick(&l0).clone(), rng.pick(&l0).clone(), rng.pick(&l0).clone(), rng.pick(&l0).clone());
        l1.push(Or(vec![And(vec![x.clone()]), And(vec![y.clone(), z.clone()])]));
        l1.push(Or(vec![And(vec![x.clone(), y.clone()]), And(vec![z.clone()])]));
        l1.push(Or(vec![And(vec![x.clone(), y.clone()]), And(vec![z.clone(), w.clone()])]));
        l1.push(Or(vec![And(vec![x, y, z]), And(vec![w])]));
    }
    out.extend(l1.iter().cloned());
    // negated / parenthesised level-1, and level-2 combinations (sampled)
    for _ in 0..tier.pick(3000, 60000) {
        let p = rng.pick(&l1).clone();
        let q = rng.pick(&l1).clone();
        let np = Basic::Paren { not: rng.chance(1, 2), inner: p };
        let nq = Basic::Paren { not: rng.chance(1, 2), inner: q };
        let extra = rng.pick(&l0).clone();
        out.push(match rng.below(4) {
            0 => Or(vec![And(vec![np, nq])]),
            1 => Or(vec![And(vec![np]), And(vec![nq])]),
            2 => Or(vec![And(vec![extra]), And(vec![np, nq])]),
            _ => Or::single(Basic::Paren { not: true, inner: Or(vec![And(vec![np]), And(vec![nq, extra])]) }),
        });
    }
    out
}

/// logically equivalent rewritings of a formula (oracle-free laws)
fn equivalents(f: &Or, rng: &mut Rng) -> Vec<(&'static str, Or)> {
    let mut v: Vec<(&'static str, Or)> = vec![];
    v.push(("double-negation", Or::single(Basic::Paren { not: true, inner: Or::single(Basic::Paren { not: true, inner: f.clone() }) })));
    v.push(("redundant-parentheses", Or::single(paren(Or::single(paren(f.clone()))))));
    // commutativity
    let mut c = f.clone();
    c.0.reverse();
    for a in c.0.iter_mut() {
        a.0.reverse();
    }
    v.push(("commutativity", c));
    // idempotence
    let mut d = f.clone();
    let first = d.0[0].clone();
    d.0.push(first);
    v.push(("idempotence-or", d));
    // De Morgan on the top level: F = A1 || A2 ... ; !( !A1' && !A2' ...) where Ai' = (Ai)
    let dm = Or::single(Basic::Paren {
        not: true,
        inner: Or(vec![And(f.0.iter().map(|a| Basic::Paren { not: true, inner: Or(vec![a.clone()]) }).collect())]),
    });
    v.push(("de-morgan-or", dm));
    // each conjunction: A = b1 && b2 ... == !( !b1 || !b2 ...)
    let dm2 = Or(f.0.iter().map(|a| And(vec![Basic::Paren { not: true, inner: Or(a.0.iter().map(|b| And(vec![neg(b)])).collect()) }])).collect());
    v.push(("de-morgan-and", dm2));
    // explicit precedence: && binds tighter than ||
    if f.0.len() > 1 {
        v.push(("explicit-precedence", Or(f.0.iter().map(|a| And(vec![paren(Or(vec![a.clone()]))])).collect())));
    }
    // distribution: X && (Y || Z) == X && Y || X && Z  (built from the first basics)
    if f.0.len() >= 2 {
        let x = rng.pick(&atoms()).clone();
        let lhs = Or(vec![And(vec![x.clone(), paren(f.clone())])]);
        let rhs = Or(f.0.iter().map(|a| {
            let mut b = vec![x.clone()];
            b.extend(a.0.iter().cloned());
            And(b)
        }).collect());
        v.push(("distribution:lhs", lhs));
        v.push(("distribution:rhs", rhs));
    }
    v
}

/// deep nesting with a known meaning: (query, document) pairs for depths 1..=100
fn depth_ladders() -> Vec<(String, J)> {
    let mut out = vec![];
    let o = |v: Vec<(&str, J)>| J::Obj(v.into_iter().map(|(k, v)| (k.to_string(), v)).collect());
    let flat = J::Arr(vec![o(vec![("a", J::int(1))]), o(vec![("b", J::int(1))]), o(vec![("a", J::Null), ("b", J::int(2))]), o(vec![]), J::int(3)]);
    for d in [1usize, 2, 3, 8, 15, 16, 17, 30, 31, 32, 33, 34, 40, 48, 63, 64, 65, 100] {
        out.push((format!("$[?{}@.a || @.b{}]", "(".repeat(d), ")".repeat(d)), flat.clone()));
        out.push((format!("$[?{}@.a{}]", "(".repeat(d), ")".repeat(d)), flat.clone()));
        out.push((format!("$[?{}@.a{}]", "!(".repeat(d), ")".repeat(d)), flat.clone()));
        out.push((format!("$[?{}@.a && !@.b{} || @ == 3]", "!(".repeat(d), ")".repeat(d)), flat.clone()));
        out.push((format!("$[?@.b && {}@.a{}]", "(".repeat(d), ")".repeat(d)), flat.clone()));
        // nested filters: the innermost test must still see its own @
        let mut doc = J::Arr(vec![o(vec![("a", J::int(1))]), o(vec![("b", J::int(2))])]);
        for _ in 0..d {
            doc = J::Arr(vec![doc, J::Arr(vec![])]);
        }
        out.push((format!("$[?{}@.a{}]", "@[?".repeat(d), "]".repeat(d)), doc.clone()));
        out.push((format!("$[?{}@.b == 2{}]", "@[?".repeat(d), "]".repeat(d)), doc));
    }
    out
}

fn existence_queries() -> Vec<&'static str> {
    vec![
        "$.v[?@.m]", "$.v[?!@.m]", "$.v[?@]", "$.v[?!@]", "$.v[?@.m[0]]", "$.v[?@.m.*]", "$.v[?@.m[*]]", "$.v[?!@.m.*]", "$.v[?$.z]", "$.v[?!$.z]", "$.v[?$.nope]", "$.v[?@..m]", "$.v[?@.*]", "$.v[?!@.*]",
        "$.v[?@.m || @.x]", "$.v[?@.m && @.m]", "$.v[?@['m']]", "$.v[?@.m == @.m]", "$.v[?@.m != @.x]", "$.v[?@.*.*]", "$.v[?@..*]", "$.v[?@[0]]", "$.v[?@[-1]]", "$.v[?@[:]]", "$.v[?@[0,1]]", "$.v[?@['m','x']]",
        "$.o[?@.m]", "$.o[?!@.m]", "$.o[?@]", "$.o[?@.*]", "$.e[?@]", "$.e[?@.*]", "$.e[?@[0]]", "$.e[?!@[0]]", "$.e[?@[?@]]",
    ]
}

fn existence_doc() -> J {
    let falsy = vec![J::Null, J::Bool(false), J::int(0), J::float(-0.0), J::str(""), J::Arr(vec![]), J::Obj(vec![]), J::Bool(true), J::int(1), J::str("a"), J::Arr(vec![J::Null]), J::Obj(vec![("m".into(), J::Null)])];
    let mut v: Vec<J> = falsy.iter().map(|f| J::Obj(vec![("m".into(), f.clone())])).collect();
    v.push(J::Obj(vec![("x".into(), J::int(1))]));
    v.push(J::Obj(vec![]));
    v.push(J::Arr(vec![]));
    v.push(J::Null);
    let o = J::Obj(v.iter().enumerate().map(|(i, c)| (format!("k{:02}", i), c.clone())).collect());
    J::Obj(vec![("v".into(), J::Arr(v)), ("o".into(), o), ("e".into(), J::Arr(falsy)), ("z".into(), J::Null)])
}

fn scoping_queries() -> Vec<&'static str> {
    vec![
        "$[?@.x[?@.y==$.k]]", "$[?@[?@.a]]", "$..[?@[?@>$.t]]", "$[?count(@[?@>1])>1]", "$[?@.*[?@.a == $.k]]", "$[?$.arr[?@.n==1]]", "$[?@..[?@.a]]", "$[?@[?@[?@>1]]]", "$[?@[?@.a && $.k == 2]]",
        "$.arr[?@.x[?@.y > $.k] && @.n]", "$[?@[?@==$.k]]", "$.*[?@[?@.y]]", "$..[?@.x[?@.y]]", "$[?!@[?@.a]]", "$[?@[?!@.a]]", "$[?@.a[?@ == $.k] || @.x[?@.y != $.k]]", "$[?value(@[?@>1]) == 2]",
        "$[?count(@[?@.a]) == 1]", "$[?@[?@.a][?@.b]]", "$[?@[?@[0] == $.t]]", "$[?$[?@.k]]", "$[?@ == $.arr[0]]", "$.arr[?@[?@ > $.t && @ < $.k]]", "$[?@[?count(@.*) > $.t]]",
    ]
}

fn scoping_docs(rng: &mut Rng, n: usize) -> Vec<J> {
    let o = |v: Vec<(&str, J)>| J::Obj(v.into_iter().map(|(k, v)| (k.to_string(), v)).collect());
    let mut docs = vec![
        o(vec![
            ("k", J::int(2)),
            ("t", J::int(1)),
            ("arr", J::Arr(vec![J::Arr(vec![J::int(1), J::int(2), J::int(3)]), o(vec![("x", J::Arr(vec![o(vec![("y", J::int(2))]), o(vec![("y", J::int(3))])])), ("n", J::int(1))]), o(vec![("a", J::int(1))]), J::int(2)])),
            ("obj", o(vec![("x", J::Arr(vec![o(vec![("y", J::int(2))])])), ("a", J::Arr(vec![J::int(2), o(vec![("a", J::Null)])]))])),
        ]),
        J::Arr(vec![J::Arr(vec![J::int(0), J::int(2), J::int(3)]), J::Arr(vec![o(vec![("a", J::int(1)), ("b", J::int(1))])]), o(vec![("k", J::int(1)), ("a", J::Arr(vec![J::int(1)]))]), J::Arr(vec![J::Arr(vec![J::int(2)])])]),
    ];
    let mut cfg = gen::DocCfg::default();
    cfg.keys = ["a", "b", "k", "t", "x", "y", "n", "arr"].iter().map(|s| s.to_string()).collect();
    for _ in 0..n {
        docs.push(gen::random_doc(rng, &cfg));
    }
    docs
}

/// every logical (sub-)expression of a query keyed by the Debug text of its library-model
/// conversion: whole filters, the operands of || and && (the library evaluates each through
/// the same hooked function), parenthesised inner expressions, filters nested in queries
fn filter_index(q: &Query) -> HashMap<String, Or> {
    fn add_or(o: &Or, m: &mut HashMap<String, Or>) {
        m.insert(format!("{:?}", convert::filter(o)), o.clone());
        for a in &o.0 {
            if o.0.len() > 1 {
                let single = Or(vec![a.clone()]);
                m.insert(format!("{:?}", convert::filter(&single)), single);
            }
            for b in &a.0 {
                if a.0.len() > 1 {
                    let single = Or::single(b.clone());
                    m.insert(format!("{:?}", convert::filter(&single)), single);
                }
                match b {
                    Basic::Paren { inner, .. } => add_or(inner, m),
                    Basic::Test { test: TestExpr::Query(q), .. } => add_query(q, m),
                    Basic::Test { test: TestExpr::Func(f), .. } => add_func(f, m),
                    Basic::Cmp { lhs, rhs, .. } => {
                        for c in [lhs, rhs] {
                            if let Comparable::Func(f) = c {
                                add_func(f, m);
                            }
                        }
                    }
                }
            }
        }
    }
    fn add_func(f: &FuncCall, m: &mut HashMap<String, Or>) {
        for a in &f.args {
            match a {
                Arg::Query(q) => add_query(q, m),
                Arg::Logical(o) => add_or(o, m),
                Arg::Func(g) => add_func(g, m),
                Arg::Lit(_) => {}
            }
        }
    }
    fn add_query(q: &Query, m: &mut HashMap<String, Or>) {
        for s in &q.segments {
            for sel in &s.selectors {
                if let Selector::Filter(o) = sel {
                    add_or(o, m);
                }
            }
        }
    }
    let mut m = HashMap::new();
    add_query(q, &mut m);
    m
}

/// existence tests over queries that are easily confused with each other (same characters,
/// different segmentation; same text under another root), combined pairwise in one filter, over
/// documents in which their truth values vary independently
pub fn confusable_cases(rng: &mut Rng, n_docs: usize) -> Vec<(String, J)> {
    let tails = [".ab", ".a.b", "['a.b']", ".a['b']", ".x1", ".x[1]", ".x['1']", ".l[0,1]", ".l[0][1]", ".l[:]", ".l[0:]", ".l[0:0]", ".l[*]", "..b", ".a..b", ".a.*", "['a','b']", ".a", ".b", "..a.b", "..a.a", "..a[0]", "..b.b"];
    let block = |r: &mut Rng| -> J {
        let mut m: Vec<(String, J)> = vec![];
        let o = |k: &str, v: J| J::Obj(vec![(k.to_string(), v)]);
        if r.chance(1, 2) {
            m.push(("ab".into(), J::int(1 + r.below(3) as i64)));
        }
        if r.chance(2, 3) {
            m.push(("a".into(), match r.below(8) { 0 | 1 => o("b", J::int(1 + r.below(3) as i64)), 2 => o("c", J::int(1)), 3 => o("b", o("b", J::int(2))), 4 => o("a", o("b", J::int(1))), 5 => o("a", J::Arr(vec![o("a", o("a", J::int(3)))])), 6 => J::Arr(vec![J::int(0), o("a", o("b", J::int(2)))]), _ => J::int(1) }));
        }
        if r.chance(1, 2) {
            m.push(("a.b".into(), J::int(1 + r.below(3) as i64)));
        }
        if r.chance(1, 2) {
            m.push(("x1".into(), if r.chance(1, 4) { J::Null } else { J::int(1 + r.below(3) as i64) }));
        }
        if r.chance(2, 3) {
            m.push(("x".into(), match r.below(4) { 0 => J::Arr(vec![J::int(0)]), 1 => J::Arr(vec![J::int(0), J::Bool(false)]), 2 => J::Arr(vec![J::int(0), J::int(1 + r.below(3) as i64)]), _ => o("1", J::int(1 + r.below(3) as i64)) }));
        }
        if r.chance(3, 4) {
            m.push(("l".into(), match r.below(5) { 0 => J::Arr(vec![]), 1 => J::Arr(vec![J::int(0)]), 2 => J::Arr(vec![J::int(0), J::int(1)]), 3 => J::Arr(vec![J::Arr(vec![J::int(0), J::int(1 + r.below(3) as i64)]), J::int(2)]), _ => J::Arr(vec![J::Arr(vec![J::int(0)]), J::Arr(vec![J::int(1)])]) }));
        }
        if r.chance(1, 3) {
            m.push(("b".into(), J::int(2)));
        }
        J::Obj(m)
    };
    let docs: Vec<J> = (0..n_docs)
        .map(|_| {
            let mut root = match block(rng) { J::Obj(m) => m, _ => vec![] };
            let list: Vec<J> = (1..=4).map(|k| match block(rng) { J::Obj(mut m) => { m.push(("k".into(), J::int(k))); J::Obj(m) } other => other }).collect();
            root.push(("list".into(), J::Arr(list)));
            J::Obj(root)
        })
        .collect();
    let mut atoms: Vec<String> = vec![];
    for root in ["$", "@"] {
        for t in tails {
            atoms.push(format!("{}{}", root, t));
        }
    }
    let mut out = vec![];
    let mut n = 0usize;
    // the same confusion between singular queries used as comparison operands
    let sing = ["$.ab", "$.a.b", "$['a.b']", "$.x1", "$.x[1]", "$.x['1']", "$.l[0][1]", "$.l[0]", "$.l[1]", "$.b", "$.a", "@.ab", "@.a.b", "@.x1", "@.x[1]", "@.l[0][1]", "@.b"];
    for (i, p) in sing.iter().enumerate() {
        for (k, q) in sing.iter().enumerate() {
            if i == k {
                continue;
            }
            for f in [format!("@.k == {} || @.k == {}", p, q), format!("@.k != {} && @.k != {}", p, q), format!("{} == {}", p, q), format!("@.k == {} && @.b == {} || {} != {}", p, q, q, p), format!("@.k >= {} || @.k < {}", p, q)] {
                n += 1;
                out.push((format!("$.list[?{}]", f), docs[n % docs.len()].clone()));
            }
        }
    }
    for (i, p) in atoms.iter().enumerate() {
        for (k, q) in atoms.iter().enumerate() {
            if i == k {
                continue;
            }
            // same root: all pairs; across roots: only the same tail and a sample of the others
            let same_root = p.as_bytes()[0] == q.as_bytes()[0];
            if !same_root && p[1..] != q[1..] && (i * 31 + k) % 2 != 0 {
                continue;
            }
            let forms = [format!("{} && {}", p, q), format!("{} || {}", p, q), format!("!{} && {}", p, q), format!("{} || !{}", p, q), format!("@.k == 1 && {} || @.k == 2 && {}", p, q), format!("({} || @.k == 3) && !({} && @.k == 4)", p, q)];
            for f in forms {
                n += 1;
                out.push((format!("$.list[?{}]", f), docs[n % docs.len()].clone()));
                out.push((format!("$.list[?{}]", f), docs[(n * 7 + 3) % docs.len()].clone()));
            }
        }
    }
    out
}

/// chains of == under || ("one of") and of != under && ("none of") between one singular query
/// and literals of every type, 2..6 operands, over values with int / float twins
pub fn in_list_cases(rng: &mut Rng, n: usize) -> Vec<(String, J)> {
    let lits = ["0", "1", "2", "100", "-1", "1.0", "2.0", "2.5", "1e2", "-0.0", "0.0", "'a'", "'1'", "'2'", "null", "true", "false", "\"a\""];
    let vals = vec![
        J::int(0), J::int(1), J::int(2), J::int(100), J::int(-1), J::float(0.0), J::float(-0.0), J::float(1.0), J::float(2.0), J::float(100.0), J::float(2.5), J::float(-1.0),
        J::str("a"), J::str("1"), J::str("2"), J::Null, J::Bool(true), J::Bool(false), J::Arr(vec![J::int(1)]), J::Obj(vec![("v".into(), J::int(1))]),
    ];
    let mut elems: Vec<J> = vals.iter().map(|v| J::Obj(vec![("v".into(), v.clone()), ("w".into(), J::Arr(vec![v.clone()]))])).collect();
    elems.push(J::Obj(vec![("u".into(), J::int(1))]));
    elems.push(J::int(1));
    let doc = J::Obj(vec![("vals".into(), J::Arr(elems)), ("pick".into(), J::float(2.0)), ("one".into(), J::int(1))]);
    let subjects = ["@.v", "@['v']", "@.w[0]", "$.pick", "@.w[-1]", "$.one"];
    let mut out = vec![];
    for _ in 0..n {
        let k = 2 + rng.below(5) as usize;
        let subj = *rng.pick(&subjects[..]);
        let none_of = rng.chance(1, 3);
        let ops: Vec<String> = (0..k)
            .map(|_| {
                let l = *rng.pick(&lits[..]);
                let op = if none_of { "!=" } else { "==" };
                if rng.chance(1, 4) { format!("{} {} {}", l, op, subj) } else { format!("{} {} {}", subj, op, l) }
            })
            .collect();
        let body = ops.join(if none_of { " && " } else { " || " });
        let body = match rng.below(4) { 0 => format!("!({})", body), 1 => format!("({}) && @.v", body), _ => body };
        out.push((format!("$.vals[?{}]", body), doc.clone()));
    }
    out
}

/// (i) operands of one || / && level whose texts differ only in blanks inside a string literal or
/// a quoted name; (ii) range conditions built from two ordering comparisons with the literal on
/// either side, evaluated on values that sit exactly on the bounds
fn blank_and_range_cases() -> Vec<(String, J)> {
    let mut out = vec![];
    let o = |v: Vec<(&str, J)>| J::Obj(v.into_iter().map(|(k, v)| (k.to_string(), v)).collect());
    let d1 = o(vec![("v", J::Arr(vec![
        o(vec![("n", J::str("a b"))]), o(vec![("n", J::str("ab"))]), o(vec![("n", J::str("New York"))]), o(vec![("n", J::str("NewYork"))]), o(vec![("first name", J::int(1))]), o(vec![("firstname", J::int(2))]),
        o(vec![("n", J::str("a  b"))]), o(vec![("n", J::str("a\tb"))]), o(vec![("n", J::str("x"))]),
    ]))]);
    for (a, b) in [("@.n == 'a b'", "@.n == 'ab'"), ("@.n != 'New York'", "@.n != 'NewYork'"), ("@['first name']", "@['firstname']"), ("@.n == 'a  b'", "@.n == 'a b'"), ("@.n == \"a b\"", "@.n == 'ab'"), ("@['first name'] == 1", "@['firstname'] == 2"), ("match(@.n, 'a b')", "match(@.n, 'ab')")] {
        for f in [format!("{} || {}", a, b), format!("{} || {}", b, a), format!("{} && {}", a, b), format!("!({}) && !({})", a, b), format!("{} || @.zz || {}", a, b), format!("({} || {}) && @.n", a, b)] {
            out.push((format!("$.v[?{}]", f), d1.clone()));
        }
    }
    let vals: Vec<J> = vec![J::int(0), J::int(1), J::int(2), J::int(4), J::int(5), J::int(6), J::float(1.0), J::float(5.0), J::float(0.999), J::float(5.001), J::str("1"), J::Null];
    let mut elems: Vec<J> = vals.iter().map(|v| o(vec![("p", v.clone()), ("l", J::Arr(vec![v.clone(), J::int(3)]))])).collect();
    elems.push(o(vec![("q", J::int(3))]));
    let d2 = o(vec![("v", J::Arr(elems)), ("lo", J::int(1)), ("hi", J::int(5))]);
    for lo in ["1 < {}", "1 <= {}", "{} > 1", "{} >= 1", "1.0 < {}", "{} >= 1e0"] {
        for hi in ["{} < 5", "{} <= 5", "5 > {}", "5 >= {}", "{} < 5.0", "5e0 >= {}"] {
            for subj in ["@.p", "@['p']", "@.l[0]"] {
                let (l, h) = (lo.replace("{}", subj), hi.replace("{}", subj));
                out.push((format!("$.v[?{} && {}]", l, h), d2.clone()));
                out.push((format!("$.v[?{} && {}]", h, l), d2.clone()));
            }
            out.push((format!("$.v[?@.l[?{} && {}]]", lo.replace("{}", "@"), hi.replace("{}", "@")), d2.clone()));
            out.push((format!("$.v[?!({} && {})]", lo.replace("{}", "@.p"), hi.replace("{}", "@.p")), d2.clone()));
        }
    }
    out
}

/// count() / value() / length() over multi-segment queries inside a filter that itself stands in
/// an existence test (state set for the outer test must not reach the inner evaluation)
fn functions_inside_tests(rng: &mut Rng, n_docs: usize) -> Vec<(String, J)> {
    let queries = [
        "$.t[?@.rows[?count(@.*.*) == 3]]", "$.t[?@.rows[?count(@.*.*) == 2] && @.k]", "$.t[?!@.rows[?count(@..x) >= 2]]", "$.t[?$.t[?count(@.rows.*.*) > 3]]", "$.t[?@.rows[?value(@.*.a) == 1]]", "$.t[?@.rows[?length(value(@..s)) == 2]]",
        "$.t[?@.rows[?count(@.*[0]) == 2]]", "$.t[?@.rows[?count(@[*][*]) > count(@.*)]]", "$.t[?@.rows[?count(@.*.*) == 3] || @.rows[?count(@.*) == 1]]", "$..[?@.rows[?count(@.*.*) >= 1]]", "$.t[?@.rows[?@.a[?count(@.*) == 0]]]", "$.t[?count(@.rows[?count(@.*.*) == 3]) == 1]",
        "$.t[?@.rows[?count(@.*.*) == 3]].k", "$.t[?@.rows[?match(value(@.*.s), 'ab')]]", "$.t[?@.rows[?count(@['a','b'][*]) == 3]]", "$.t[?@.rows[?count(@.a[:]) + 0 == 2]]",
    ];
    let cell = |r: &mut Rng| -> J {
        match r.below(6) {
            0 => J::Arr(vec![J::int(1), J::int(2)]),
            1 => J::Arr(vec![J::int(3)]),
            2 => J::Arr(vec![]),
            3 => J::Obj(vec![("x".into(), J::int(1)), ("s".into(), J::str("ab"))]),
            4 => J::Obj(vec![("a".into(), J::int(1))]),
            _ => J::int(7),
        }
    };
    let mut out = vec![];
    let docs: Vec<J> = (0..n_docs)
        .map(|_| {
            let tables: Vec<J> = (0..3 + rng.below(3))
                .map(|k| {
                    let rows: Vec<J> = (0..rng.below(4)).map(|_| { let mut m = vec![]; for name in ["a", "b", "x"] { if rng.chance(2, 3) { m.push((name.to_string(), cell(rng))); } } J::Obj(m) }).collect();
                    let mut t = vec![("rows".to_string(), J::Arr(rows))];
                    if rng.chance(1, 2) { t.push(("k".into(), J::int(k as i64))); }
                    J::Obj(t)
                })
                .collect();
            J::Obj(vec![("t".into(), J::Arr(tables))])
        })
        .collect();
    for q in queries {
        if analyze(q).ast.is_none() {
            continue; // (one deliberately odd spelling above is not a query: skipped)
        }
        for d in &docs {
            out.push((q.to_string(), d.clone()));
        }
    }
    out
}

pub fn run(ctx: &Ctx) -> Result<Evidence, String> {
    let armed: Armed = arm(ctx, &|_| None)?;
    let mut rng = Rng::stream(ctx.seed, 5);
    let car = Doc::new(&carrier());
    let fs = formulas(ctx.tier, &mut rng);
    let ex_doc = Doc::new(&existence_doc());
    let sc_docs: Vec<Doc> = scoping_docs(&mut rng, ctx.tier.pick(150, 2000)).iter().map(Doc::new).collect();
    let ex_q = existence_queries();
    let sc_q = scoping_queries();
    let mut ladder_cases = depth_ladders();
    // filters over wide containers and long strings (size-dependent code paths)
    for d in gen::boundary_docs() {
        for q in gen::boundary_queries().iter().filter(|q| q.contains('?')) {
            ladder_cases.push((q.to_string(), d.clone()));
        }
    }
    {
        let big: Vec<J> = (0..40).map(|i| J::int(i)).chain(vec![J::int(9007199254740992), J::int(9007199254740993), J::int(9007199254740992), J::int(i64::MAX), J::int(i64::MAX - 1), J::str("x"), J::str("x"), J::str("y")]).collect();
        let d = J::Obj(vec![("want".into(), J::int(9007199254740993)), ("max".into(), J::int(i64::MAX - 1)), ("s".into(), J::str("x")), ("v".into(), J::Arr(big.clone())), ("o".into(), J::Obj(big.iter().enumerate().map(|(i, v)| (format!("m{:02}", i), v.clone())).collect()))]);
        for base in ["$.v", "$.o"] {
            for e in ["@ == $.want", "@ != $.want", "!(@ == $.want)", "@ >= $.want", "@ <= $.want && @ > 39", "@ == $.max || @ == $.s", "@ > $.max", "@ < $.want && @ > 9007199254740991"] {
                ladder_cases.push((format!("{}[?{}]", base, e), d.clone()));
            }
        }
    }
    let n_plain_ladders = ladder_cases.len();
    ladder_cases.extend(confusable_cases(&mut rng, ctx.tier.pick(24, 96)));
    let n_confusable_end = ladder_cases.len();
    ladder_cases.extend(in_list_cases(&mut rng, ctx.tier.pick(4000, 100_000)));
    ladder_cases.extend(blank_and_range_cases());
    let n_inlist_end = ladder_cases.len();
    ladder_cases.extend(functions_inside_tests(&mut rng, ctx.tier.pick(60, 1500)));
    let ladders: Vec<(String, Doc)> = ladder_cases.into_iter().map(|(q, d)| (q, Doc::new(&d))).collect();
    let n_lad = ladders.len();
    let n_f = fs.len() * 2; // arr + obj
    let n_ex = ex_q.len();
    let n_sc = sc_q.len() * sc_docs.len();
    let n_rand = ctx.tier.pick(40_000, 4_000_000);
    let mut qcfg = gen::QueryCfg::default();
    qcfg.filter_depth = 3;
    qcfg.names = ["a", "b", "k", "t", "x", "y", "n", "arr"].iter().map(|s| s.to_string()).collect();
    qcfg.union_pm = 0;
    // names whose spelling needs no escape or only \\ and \/ (those are decoded by the library;
    // the other escapes are the open escape finding) - inside filters, at every position
    let mut qcfg2 = gen::QueryCfg::default();
    qcfg2.filter_depth = 2;
    qcfg2.union_pm = 0;
    qcfg2.names = ["a\\b", "a/b", "\\", "/", "x y", "\u{e9}", "\"", "a.b", "[0]", "$", "@", "*", "0", "-1", "", "a", "\u{1f600}", "gr\u{f6}\u{df}e\\breite", "\u{446}\u{435}\u{43d}\u{430}/\u{448}\u{442}", "\u{e9}\\"].iter().map(|s| s.to_string()).collect();
    qcfg2.strings = ["", "a", "a/b", "x y", "\u{e9}"].iter().map(|s| s.to_string()).collect();
    let mut dcfg2 = gen::DocCfg::default();
    dcfg2.keys = qcfg2.names.clone();
    let hn_docs: Vec<Doc> = (0..ctx.tier.pick(120, 1500)).map(|_| Doc::new(&gen::random_doc(&mut rng, &dcfg2))).collect();
    let n_hn = ctx.tier.pick(30_000, 1_500_000);
    let seed = ctx.seed;

    let acc = par_run(ctx, n_f + n_ex + n_sc + n_rand + n_lad + n_hn, |i, acc: &mut Acc| {
        let (text, doc, fam, formula): (String, &Doc, &str, Option<Or>);
        if i < n_f {
            let f = &fs[i / 2];
            let q = Query::root(vec![gen::name_seg(if i % 2 == 0 { "arr" } else { "obj" }), Segment::child(Selector::Filter(f.clone()))]);
            text = render(&q, &mut Spelling::canonical());
            doc = &car;
            fam = "formula";
            formula = Some(f.clone());
        } else if i < n_f + n_ex {
            text = ex_q[i - n_f].to_string();
            doc = &ex_doc;
            fam = "existence";
            formula = None;
        } else if i < n_f + n_ex + n_sc {
            let k = i - n_f - n_ex;
            text = sc_q[k % sc_q.len()].to_string();
            doc = &sc_docs[k / sc_q.len()];
            fam = "scoping";
            formula = None;
        } else if i >= n_f + n_ex + n_sc + n_rand + n_lad {
            let mut r = Rng::stream(seed, 77_000 + i as u64);
            let f = gen::random_or(&mut r, &qcfg2, 2, 2);
            let mut sp = Spelling::canonical();
            sp.names = *r.pick(&[oracle::render::NameStyle::Single, oracle::render::NameStyle::Double, oracle::render::NameStyle::Shorthand]);
            text = render(&Query::root(vec![Segment { descendant: r.chance(1, 5), selectors: vec![Selector::Filter(f)] }]), &mut sp);
            doc = &hn_docs[r.below(hn_docs.len() as u64) as usize];
            fam = "hostile-names-in-filters";
            formula = None;
        } else if i >= n_f + n_ex + n_sc + n_rand {
            let k = i - n_f - n_ex - n_sc - n_rand;
            let (q, d) = &ladders[k];
            text = q.clone();
            doc = d;
            fam = if k < n_plain_ladders { "depth-ladder" } else if k < n_confusable_end { "confusable-existence-tests" } else if k < n_inlist_end { "in-list-chains" } else { "functions-inside-tests-inside-filters" };
            formula = None;
        } else {
            let mut r = Rng::stream(seed, 9000 + i as u64);
            let f = gen::random_or(&mut r, &qcfg, 3, 2);
            let mut segs = vec![];
            if r.chance(1, 2) {
                let nm: String = r.pick(&qcfg.names[..]).clone();
                segs.push(gen::name_seg(&nm));
            }
            segs.push(Segment { descendant: r.chance(1, 4), selectors: vec![Selector::Filter(f)] });
            text = render(&Query::root(segs), &mut Spelling::canonical());
            doc = &sc_docs[r.below(sc_docs.len() as u64) as usize];
            fam = "random-nested";
            formula = None;
        }
        let parsed = analyze(&text);
        let ast = match &parsed.ast {
            Some(a) => a.clone(),
            None => {
                acc.count("HARNESS_unparsable", 1);
                return;
            }
        };
        acc.evaluations += 1;
        acc.count(&format!("family_{}", fam), 1);
        let j = judge_query(&text, &parsed, doc, NODES | ORDER, &armed);
        let mut verdict = j.verdict.clone();
        let lib_addrs: Vec<usize> = match &j.lib {
            LibOutcome::Ok(ns) => ns.iter().map(|x| x.0).collect(),
            _ => vec![],
        };
        // oracle-free laws on the enumerated formulas
        if let (Some(f), Verdict::Held) = (&formula, &verdict) {
            if i % 3 == 0 {
                let mut r = Rng::stream(seed, i as u64);
                let eqs = equivalents(f, &mut r);
                let mut dist: Option<Vec<usize>> = None;
                for (law, g) in eqs {
                    let q = Query::root(vec![gen::name_seg(if i % 2 == 0 { "arr" } else { "obj" }), Segment::child(Selector::Filter(g))]);
                    let t2 = render(&q, &mut Spelling::canonical());
                    let got: Vec<usize> = match libapi::query_with_path(&t2, &doc.value) {
                        LibOutcome::Ok(ns) => ns.iter().map(|x| x.0).collect(),
                        o => {
                            verdict = Verdict::Violated(format!("law {}: rewritten formula failed: {} for {}", law, o.brief(), t2));
                            break;
                        }
                    };
                    acc.count("law_instances", 1);
                    if law == "distribution:lhs" {
                        dist = Some(got);
                        continue;
                    }
                    let reference_set = if law == "distribution:rhs" { dist.clone().unwrap_or_default() } else { lib_addrs.clone() };
                    if got != reference_set {
                        verdict = Verdict::Violated(format!("Boolean law {} violated: {} selects {} children, the equivalent {} selects {}", law, text, reference_set.len(), t2, got.len()));
                        break;
                    }
                }
            }
        }
        // H2: every per-child decision, at every nesting level
        if verdict == Verdict::Held && (i % 4 == 0 || fam == "scoping") {
            let (_, events) = with_events(|| libapi::query_with_path(&text, &doc.value));
            let index = filter_index(&ast);
            let mut rc = RefCtx::new(&doc.j);
            for e in events {
                if let Event::FilterItem { text: ft, item, verdict: v } = e {
                    acc.count("h2_filter_item_events", 1);
                    let f = match index.get(&ft) {
                        Some(f) => f,
                        None => {
                            acc.count("h2_events_not_attributed", 1);
                            continue;
                        }
                    };
                    let loc = match doc.loc_of(item) {
                        Some(l) => l.clone(),
                        None => {
                            verdict = Verdict::Violated("H2: a filter was applied to an item that is not a node of the document".into());
                            break;
                        }
                    };
                    let node = doc.j.at(&loc).unwrap();
                    match rc.truth(f, &(loc.clone(), node)) {
                        Ok(want) => {
                            if rc.flags.u2 || rc.flags.u3 || rc.flags.u5 {
                                continue;
                            }
                            if want != v {
                                verdict = Verdict::Violated(format!("H2: filter decision for child {} is {} but RFC 9535 gives {} (filter {})", oracle::npath::render(&loc), v, want, ft.chars().take(200).collect::<String>()));
                                break;
                            }
                            acc.count("h2_decisions_agree", 1);
                        }
                        Err(_) => {}
                    }
                }
            }
        }
        let kept = j.ref_locs.len();
        if kept > 0 && (fam != "formula" || kept < 183) {
            acc.nontrivial(format!("{}\u{0}{}", text, if fam == "formula" { String::new() } else { doc.text() }).as_bytes());
            acc.sample(json!({"family": fam, "query": text, "kept_children": kept}));
        }
        if let Some(f) = &formula {
            acc.mark("formula_shapes", format!("or{}xand{}", f.0.len(), f.0.iter().map(|a| a.0.len()).max().unwrap_or(0)));
        }
        match verdict {
            Verdict::Held => acc.count("held", 1),
            Verdict::Known(id) => ctx.add_known(&id, 1),
            Verdict::Skipped(z) => ctx.add_skipped(z, 1),
            Verdict::Inconclusive(w) => ctx.add_inconclusive(&w, 1),
            Verdict::Violated(m) => ctx.violate(&m, judge::replay_json("query", &text, doc, &j)),
        }
    });
    if acc.counters.get("HARNESS_unparsable").copied().unwrap_or(0) > 0 {
        return Err("a generated C05 query is not parsable by oracle (b)".into());
    }
    let mut ev = Evidence::new("cases: (i) every formula of the enumerated family (6 atoms and their negations; all pairs under && and ||; sampled 3/4-operand precedence mixes and parenthesised/negated level-2 combinations) x a carrier whose 183 children realise the valuations of the atoms incl. falsy/empty member values, as array elements and as object member values; (ii) existence tests over members valued null,false,0,-0.0,\"\",[],{}; (iii) nested-filter scoping queries x curated + random documents; (iv) random nested filters; (v) parenthesis / negation / nested-filter ladders of depth 1..100 whose meaning is known; (vi) pairs of existence tests and of singular comparison operands that print alike ($.a.b / $.ab, $.x[1] / $.x1, $.l[:] / $.l[0:], same tail under $ and @) in six connective forms over documents where their values vary independently; (viii) count() / value() / length() over multi-segment queries inside a filter that stands in an existence test; (vii) one-of / none-of chains of 2..6 (in)equalities between one singular query and literals of every type over int / float twins. Oracles: reference evaluator (kept children in order), Boolean laws between rewritings (oracle-free), H2 per-child decisions. Non-trivial = distinct cases whose filter keeps some but (for formulas) not all children.");
    ev.set("exhaustive", json!(false));
    ev.set("formulas_enumerated", json!(fs.len()));
    ev.assume("reference evaluator (oracle c) as in C01; Boolean laws need no oracle");
    ev.min_nontrivial = 300;
    acc.into_evidence(&mut ev);
    Ok(ev)
}
