//! C09: reference / reference_mut resolve a Normalized Path to exactly its node; a write through
//! reference_mut changes that node and nothing else; a path to a location that does not exist
//! yields None. Oracle: the address map (independent walk) and our own location-based `set`.

use crate::ctx::{par_run, Acc, Ctx, Evidence};
use crate::findings::{arm, Armed};
use crate::libapi::{self, Doc, LibOutcome};
use jsonpath_rust::query::queryable::Queryable;
use jsonpath_rust::JsonPath;
use oracle::gen;
use oracle::json::{Loc, Step, J};
use oracle::npath;
use oracle::rng::Rng;
use serde_json::{json, Value};
use std::panic::{catch_unwind, AssertUnwindSafe};

fn hostile_docs() -> Vec<J> {
    let o = |v: Vec<(&str, J)>| J::Obj(v.into_iter().map(|(k, v)| (k.to_string(), v)).collect());
    let names = ["a/b", "a", "b", "~", "~0", "~1", "a~b", "/", "//", "%", "%2F", "0", "01", "-1", "1", "'", "\\", "a'b", "a\\b", " ", "", "a b", "\u{e9}", "\u{1f600}", "\"", "\"a\"", "'a'", "\n", "\t", "\u{0}", "a.b", "[0]", "$", "*"];
    let mut docs = vec![];
    // every hostile name next to every other, one and two levels deep, with arrays in between
    docs.push(J::Obj(names.iter().enumerate().map(|(i, k)| (k.to_string(), J::int(i as i64))).collect()));
    docs.push(J::Obj(names.iter().enumerate().map(|(i, k)| (k.to_string(), J::Arr(vec![J::int(i as i64), o(vec![(k, J::int(1)), ("b", J::int(2))])]))).collect()));
    // JSON-pointer traps: "a/b" next to a -> b ; "~1" next to "/" ; "0" next to arrays
    docs.push(o(vec![("a/b", J::int(1)), ("a", o(vec![("b", J::int(2))])), ("~1", J::int(3)), ("/", J::int(4)), ("~0", J::int(5)), ("~", J::int(6)), ("~01", J::int(7)), ("~1", J::int(8))]));
    docs.push(o(vec![("0", J::str("zero")), ("1", J::str("one")), ("arr", J::Arr(vec![J::str("x"), J::str("y")])), ("obj", o(vec![("0", J::int(0)), ("1", J::int(1)), ("-1", J::int(-1)), ("01", J::int(8))]))]));
    docs.push(J::Arr(vec![o(vec![("0", J::int(7))]), J::Arr(vec![J::int(8), J::Arr(vec![J::int(9)])]), J::int(1), J::str("s"), J::Null]));
    docs.push(o(vec![("size\"", J::int(1)), ("size", J::int(2)), ("\"quoted\"", J::int(3)), ("quoted", J::int(4)), ("\"", o(vec![("k", J::int(5))])), ("", o(vec![("", J::int(6))]))]));
    docs
}

fn replacement_values() -> Vec<J> {
    vec![J::Null, J::Bool(true), J::int(-7), J::float(2.5), J::str("new"), J::Arr(vec![]), J::Arr(vec![J::int(1), J::Arr(vec![J::int(2)])]), J::Obj(vec![]), J::Obj(vec![("n".into(), J::Obj(vec![("m".into(), J::int(1))]))])]
}

/// non-existent locations derived from an existing document
fn missing_paths(d: &J) -> Vec<(String, &'static str)> {
    let mut out = vec![];
    let mut huge: Vec<(String, &'static str)> = vec![];
    for l in d.all_locs() {
        let node = d.at(&l).unwrap();
        let mut with = |s: Step, kind: &'static str| {
            let mut m = l.clone();
            m.push(s);
            if d.at(&m).is_none() {
                out.push((npath::render(&m), kind));
                // and one step below the missing step
                let mut m2 = m.clone();
                m2.push(Step::Key("a".into()));
                out.push((npath::render(&m2), "below-a-missing-step"));
            }
        };
        match node {
            J::Obj(o) => {
                with(Step::Key("no-such-member".into()), "missing-name");
                // index on an object, in particular one that has that numeric key
                for i in 0..3usize {
                    with(Step::Idx(i), if o.iter().any(|(k, _)| *k == i.to_string()) { "index-on-object-with-that-numeric-key" } else { "index-on-object" });
                }
            }
            J::Arr(a) => {
                // indices far beyond any array (and beyond 2^53, 2^63, 2^64, 2^128): no location
                if l.len() <= 2 {
                    let base = npath::render(&l);
                    for big in ["9007199254740991", "9007199254740992", "9223372036854775807", "9223372036854775808", "18446744073709551615", "18446744073709551616", "18446744073709551617", "100000000000000000000", "340282366920938463463374607431768211456", "36893488147419103232"] {
                        huge.push((format!("{}[{}]", base, big), "huge-index"));
                        huge.push((format!("{}[{}][0]", base, big), "huge-index"));
                        huge.push((format!("{}[{}]['a']", base, big), "huge-index"));
                    }
                }
                with(Step::Idx(a.len()), "index-equals-length");
                with(Step::Idx(a.len() + 5), "index-beyond-length");
                for i in 0..a.len().min(3) {
                    with(Step::Key(i.to_string()), "quoted-digits-on-array");
                }
                with(Step::Key("a".into()), "name-on-array");
            }
            _ => {
                with(Step::Key("a".into()), "step-through-scalar");
                with(Step::Idx(0), "step-through-scalar");
            }
        }
    }
    out.extend(huge);
    out
}

fn set(d: &mut J, loc: &Loc, v: J) -> bool {
    match d.at_mut(loc) {
        Some(slot) => {
            *slot = v;
            true
        }
        None => false,
    }
}

fn lib_reference(v: &Value, path: &str) -> Result<Option<usize>, String> {
    catch_unwind(AssertUnwindSafe(|| v.reference(path.to_string()).map(libapi::addr))).map_err(|p| format!("panic: {}", libapi::panic_msg(p)))
}

pub fn run(ctx: &Ctx) -> Result<Evidence, String> {
    let armed: Armed = arm(ctx, &|_| None)?;
    let mut rng = Rng::stream(ctx.seed, 9);
    let mut docs: Vec<J> = gen::enum_docs_upto(ctx.tier.pick(3, 4), &gen::small_leaves(), &["a", "b", "0"]);
    docs.extend(hostile_docs());
    docs.extend(gen::curated_docs().into_iter().filter(|d| d.node_count() < 300));
    let mut cfg = gen::DocCfg::default();
    cfg.keys = ["a", "b", "0", "1", "a/b", "~", "x y", "'", "\\", ""].iter().map(|s| s.to_string()).collect();
    for _ in 0..ctx.tier.pick(2500, 1_500_000) {
        docs.push(gen::random_doc(&mut rng, &cfg));
    }
    // long member names drawn from a hostile alphabet: every adjacency of brackets, quotes,
    // backslashes, pointer characters, controls and multi-byte characters, at every offset
    let alphabet: Vec<char> = "][\\'\"/~ .a0\u{e9}\u{1f600}\t\n\u{1}$@*-_%".chars().collect();
    for _ in 0..ctx.tier.pick(60, 6000) {
        let mut members: Vec<(String, J)> = vec![];
        for k in 0..30 {
            let len = 1 + rng.below(44) as usize;
            let name: String = (0..len).map(|_| *rng.pick(&alphabet)).collect();
            if members.iter().any(|(n, _)| *n == name) {
                continue;
            }
            let inner_len = 14 + rng.below(20) as usize;
            let inner: String = (0..inner_len).map(|_| *rng.pick(&alphabet)).collect();
            members.push((name, if k % 3 == 0 { J::Obj(vec![(inner, J::int(k))]) } else { J::Arr(vec![J::int(k), J::Null]) }));
        }
        docs.push(J::Obj(members));
    }
    // long names that are plain except for one or two special characters (see gen::sparse_long_names)
    for chunk in gen::sparse_long_names(&mut rng).chunks(16) {
        docs.push(J::Obj(chunk.iter().enumerate().map(|(k, n)| (n.clone(), if k % 2 == 0 { J::Arr(vec![J::int(k as i64), J::Null]) } else { J::Obj(vec![(n.clone(), J::int(k as i64))]) })).collect()));
    }
    // documents deeper than any parser limit (built, not parsed): every location must still be
    // addressable through its Normalized Path
    for depth in [60usize, 100, 126, 127, 128, 129, 130, 200, 255, 256, 257, 300, 700] {
        let mut d = J::Obj(vec![("leaf".into(), J::str("leaf")), ("l".into(), J::Arr(vec![J::int(1), J::Obj(vec![("k".into(), J::Null)])]))]);
        for i in 0..depth {
            d = match i % 3 {
                0 => J::Obj(vec![("a".into(), d), ("s".into(), J::int(i as i64))]),
                1 => J::Arr(vec![J::int(i as i64), d]),
                _ => J::Obj(vec![("x y".into(), J::Arr(vec![])), ("n".into(), d)]),
            };
        }
        docs.push(d);
    }
    let reps = replacement_values();
    let seed = ctx.seed;
    // a finding about names the path must escape / JSON-pointer characters is keyed on the name
    let name_trigger = |l: &Loc| -> Option<&'static str> {
        for s in l {
            if let Step::Key(k) = s {
                if k.chars().any(|c| c == '\'' || c == '\\' || (c as u32) < 0x20) {
                    return Some("path_name_needs_escape");
                }
            }
        }
        None
    };

    let acc = par_run(ctx, docs.len(), |i, acc: &mut Acc| {
        let doc = Doc::new(&docs[i]);
        let mut r = Rng::stream(seed, 900 + i as u64);
        let locs = doc.j.all_locs();
        let report = |what: String, extra: Value| {
            ctx.violate(&what, json!({"kind":"reference","document": serde_json::from_str::<Value>(&doc.text()).unwrap_or_default(), "detail": extra}));
        };
        // paths the property does not specify (not Normalized Paths): run between the judged
        // calls for crash-freedom and to expose state that leaks from one call into the next
        let unjudged = |r: &mut Rng, l: &Loc| -> String {
            let base = npath::render(l);
            match r.below(9) {
                0 => format!("{}[*]", base),
                1 => format!("{}[-1]", base),
                2 => format!("{}..a", base),
                3 => format!("{}[?@]", base),
                4 => format!("{}[0:1]", base),
                5 => format!("{}['a','b']", base),
                6 => format!("{}[", base),
                7 => "$.a.b".to_string(),
                _ => format!("{}[9007199254740992]", base),
            }
        };
        // (1) every location: reference(npath) is pointer-equal to the node
        for l in &locs {
            let p = npath::render(l);
            if r.chance(1, 3) {
                let u = unjudged(&mut r, l);
                let _ = lib_reference(&doc.value, &u);
                acc.count("unjudged_interleaved_calls", 1);
            }
            acc.evaluations += 1;
            let want = libapi::addr(value_at(&doc.value, l));
            match lib_reference(&doc.value, &p) {
                Ok(Some(a)) if a == want => {
                    acc.count("reference_resolved_to_its_node", 1);
                    if !l.is_empty() {
                        acc.nontrivial(format!("{}\u{0}{}", i, p).as_bytes());
                        if let Some(Step::Key(k)) = l.last() {
                            acc.mark("name_classes", crate::c03::name_class(k).to_string());
                        }
                    }
                }
                other => {
                    let known = name_trigger(l).filter(|t| armed.has(t));
                    match known {
                        Some(t) => ctx.add_known(&armed.id_of(t), 1),
                        None => report(
                            format!("reference({:?}) does not return the node at that location: {}", p, match &other {
                                Ok(None) => "None".to_string(),
                                Ok(Some(a)) => format!("the node at {}", doc.loc_of(*a).map(|l| npath::render(l)).unwrap_or_else(|| "<not in document>".into())),
                                Err(e) => e.clone(),
                            }),
                            json!({"path": p}),
                        ),
                    }
                }
            }
        }
        // (1b) the paths the library itself reports for the nodes of this document (wildcard and
        // descendant steps) resolve, through reference, to exactly the nodes they were reported for
        if locs.len() <= 3000 {
            for q in ["$..*", "$.*"] {
                if let LibOutcome::Ok(nodes) = libapi::query_with_path(q, &doc.value) {
                    let stride = 1 + nodes.len() / 80;
                    for (a, p) in nodes.iter().step_by(stride) {
                        acc.evaluations += 1;
                        match lib_reference(&doc.value, p) {
                            Ok(Some(b)) if b == *a => acc.count("reported_path_resolved_to_its_node", 1),
                            other => {
                                let known = doc.loc_of(*a).and_then(|l| name_trigger(l)).filter(|t| armed.has(t));
                                match known {
                                    Some(t) => ctx.add_known(&armed.id_of(t), 1),
                                    None => report(
                                        format!("reference({:?}), a path reported by {} for a node of this document, does not return that node: {}", p, q, match &other {
                                            Ok(None) => "None".to_string(),
                                            Ok(Some(b)) => format!("the node at {}", doc.loc_of(*b).map(|l| npath::render(l)).unwrap_or_else(|| "<not in document>".into())),
                                            Err(e) => e.clone(),
                                        }),
                                        json!({"path": p, "reported_by": q}),
                                    ),
                                }
                            }
                        }
                    }
                }
            }
        }
        // (2) non-existent locations answer None
        for (p, kind) in missing_paths(&doc.j).into_iter().take(400) {
            acc.evaluations += 1;
            acc.mark("missing_path_kinds", kind.to_string());
            match lib_reference(&doc.value, &p) {
                Ok(None) => acc.count("missing_location_is_none", 1),
                Ok(Some(a)) => {
                    let hit = doc.loc_of(a).map(|l| npath::render(l)).unwrap_or_else(|| "<not in document>".into());
                    let loc = npath::parse(&p).unwrap_or_default();
                    match name_trigger(&loc).filter(|t| armed.has(t)) {
                        Some(t) => ctx.add_known(&armed.id_of(t), 1),
                        None => report(format!("reference({:?}) ({}) must be None but resolves to the node at {}", p, kind, hit), json!({"path": p, "kind": kind})),
                    }
                }
                Err(e) => report(format!("reference({:?}) {}", p, e), json!({"path": p})),
            }
        }
        // (3) writes through reference_mut: that node changes and nothing else (frame condition)
        let sample: Vec<&Loc> = if locs.len() <= 12 { locs.iter().collect() } else { (0..12).map(|_| &locs[r.below(locs.len() as u64) as usize]).collect() };
        for l in sample {
            let p = npath::render(l);
            let newv = reps[r.below(reps.len() as u64) as usize].clone();
            let mut model = doc.j.clone();
            set(&mut model, l, newv.clone());
            let mut real: Value = (*doc.value).clone();
            acc.evaluations += 1;
            let wrote = catch_unwind(AssertUnwindSafe(|| match real.reference_mut(p.clone()) {
                Some(slot) => {
                    *slot = newv.to_value();
                    true
                }
                None => false,
            }));
            let after = J::from_value(&real);
            match wrote {
                Ok(true) if strict_same(&after, &J::from_value(&model.to_value())) => acc.count("writes_with_frame_condition_checked", 1),
                other => match name_trigger(l).filter(|t| armed.has(t)) {
                    Some(t) => ctx.add_known(&armed.id_of(t), 1),
                    None => report(
                        format!("a write through reference_mut({:?}) {}", p, match other {
                            Ok(true) => "changed the wrong part of the document (or something else as well)".to_string(),
                            Ok(false) => "was not possible: None for an existing location".to_string(),
                            Err(_) => "panicked".to_string(),
                        }),
                        json!({"path": p, "written": serde_json::from_str::<Value>(&newv.to_text()).unwrap_or_default(), "document_after": serde_json::from_str::<Value>(&after.to_text()).unwrap_or_default()}),
                    ),
                },
            }
        }
        // (4) histories: all paths one query returns, updated in a random order; a path into a
        // subtree that an earlier update replaced must answer None afterwards
        if doc.j.node_count() >= 3 {
            for q in ["$..*", "$[*]", "$..[0]"] {
                let paths: Vec<String> = match doc.value.query_only_path(q) {
                    Ok(p) => p,
                    Err(_) => continue,
                };
                let mut order: Vec<usize> = (0..paths.len()).collect();
                r.shuffle(&mut order);
                order.truncate(10);
                let mut model = doc.j.clone();
                let mut real: Value = (*doc.value).clone();
                let mut steps = vec![];
                for k in order {
                    let p = &paths[k];
                    // feeding back what the query itself reported; judged only if it is a
                    // Normalized Path (the property speaks of Normalized Paths)
                    let l = match npath::parse(p) {
                        Some(l) => l,
                        None => continue,
                    };
                    if name_trigger(&l).is_some() {
                        continue;
                    }
                    let newv = reps[r.below(reps.len() as u64) as usize].clone();
                    let expect_some = model.at(&l).is_some();
                    if expect_some {
                        set(&mut model, &l, newv.clone());
                    }
                    let got = catch_unwind(AssertUnwindSafe(|| match real.reference_mut(p.clone()) {
                        Some(slot) => {
                            *slot = newv.to_value();
                            true
                        }
                        None => false,
                    }));
                    steps.push(json!({"path": p, "value": serde_json::from_str::<Value>(&newv.to_text()).unwrap_or_default()}));
                    acc.evaluations += 1;
                    let after = J::from_value(&real);
                    let ok = matches!(got, Ok(g) if g == expect_some) && strict_same(&after, &J::from_value(&model.to_value()));
                    if !ok {
                        report(format!("update history through paths of {:?}: after {} updates the document differs from the model (update of {:?}, location {} exist at that point)", q, steps.len(), p, if expect_some { "did" } else { "did not" }), json!({"query": q, "updates": steps}));
                        break;
                    }
                    acc.count("history_updates_checked", 1);
                }
                if steps.len() >= 2 {
                    acc.count("histories_of_length_ge_2", 1);
                    acc.nontrivial(format!("h{}\u{0}{}\u{0}{:?}", i, q, steps.len()).as_bytes());
                }
            }
        }
        if i % 97 == 0 && !locs.is_empty() {
            acc.sample(json!({"document_nodes": doc.j.node_count(), "a_location": npath::render(&locs[locs.len() - 1])}));
        }
    });
    // concurrent use: every thread resolves the paths of documents of its own, many distinct
    // paths in quick succession (tables of recently resolved paths are filled and overwritten by
    // all threads at once); every answer must be the node at that location
    let mut acc = acc;
    {
        let threads = ctx.threads.clamp(2, 16);
        let rounds = ctx.tier.pick(30, 600);
        let budget_s: f64 = ctx.tier.pick(2, 40) as f64;
        let pool: Vec<Doc> = docs.iter().filter(|d| { let n = d.node_count(); n >= 8 && n <= 400 }).step_by(7).take(threads * 6).map(Doc::new).collect();
        let barrier = std::sync::Barrier::new(threads);
        let checked = std::sync::atomic::AtomicU64::new(0);
        std::thread::scope(|s| {
            for t in 0..threads {
                let (pool, barrier, checked) = (&pool, &barrier, &checked);
                s.spawn(move || {
                    // paths and expected nodes are prepared before the start: the threads then
                    // do nothing but resolve
                    let mine: Vec<(&Doc, Vec<(String, usize)>)> = (0..6).map(|k| { let doc = &pool[(t * 6 + k) % pool.len()]; (doc, doc.j.all_locs().iter().map(|l| (npath::render(l), libapi::addr(value_at(&doc.value, l)))).collect()) }).collect();
                    barrier.wait();
                    let started = std::time::Instant::now();
                    for round in 0..rounds * 200 {
                        // bounded by operations and by time (quick: 2 s, thorough: 40 s)
                        if round >= rounds && started.elapsed().as_secs_f64() > budget_s {
                            break;
                        }
                        let (doc, paths) = &mine[round % 6];
                        for (p, w) in paths {
                            let p = p.clone();
                            let want = Some(*w);
                            let got = lib_reference(&doc.value, &p);
                            checked.fetch_add(1, std::sync::atomic::Ordering::Relaxed);
                            if !matches!((&got, want), (Ok(Some(a)), Some(w)) if *a == w) {
                                ctx.violate(
                                    &format!("with {} threads resolving paths at the same time, reference({:?}) does not return the node at that location: {:?}", threads, p, got.as_ref().map(|o| o.map(|_| "another node"))),
                                    json!({"kind":"schedule","path": p, "threads": threads, "document": serde_json::from_str::<Value>(&doc.text()).unwrap_or_default()}),
                                );
                                return;
                            }
                        }
                    }
                });
            }
        });
        acc.count("concurrent_reference_calls_checked", checked.load(std::sync::atomic::Ordering::Relaxed));
    }
    let mut ev = Evidence::new("cases: for every document (all small trees over keys a,b,0; documents whose member names contain / ~ ~0 ~1 % digits-only ' \\ blanks, empty, unicode, quote-wrapped; curated and random documents; built documents 60..700 levels deep); indices of 16..39 digits must answer None; a time-bounded concurrent phase (16 threads resolving the paths of documents of their own) every location's Normalized Path is given to reference (pointer-compared with the node found by an independent walk); non-existent paths of ten kinds must answer None; writes of every JSON type through reference_mut are compared with our own location-based update of a copy (this one comparison covers 'that node changed' and 'nothing else changed'); update histories in random order over all paths one query returned, compared with the model after each step. Non-trivial = distinct (document, location) pairs of depth >= 1 resolved + distinct histories of length >= 2.");
    ev.set("exhaustive", json!(false));
    ev.set("documents", json!(docs.len()));
    ev.assume("only well-formed Normalized Paths are judged (existing location -> that node, otherwise None); other spellings are not specified by the property");
    ev.min_nontrivial = 500;
    acc.into_evidence(&mut ev);
    Ok(ev)
}

fn value_at<'a>(v: &'a Value, l: &Loc) -> &'a Value {
    let mut cur = v;
    for s in l {
        cur = match (cur, s) {
            (Value::Array(a), Step::Idx(i)) => &a[*i],
            (Value::Object(o), Step::Key(k)) => &o[k.as_str()],
            _ => panic!("location not in value"),
        };
    }
    cur
}

/// equality that distinguishes 1 from 1.0 (a write of an int must not come back as a float)
fn strict_same(a: &J, b: &J) -> bool {
    a.to_text() == b.to_text()
}
