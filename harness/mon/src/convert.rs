//! Oracle AST -> the library's public model types, so that evaluation can be driven without the
//! parser (C08/C11/C12: integers the parser would refuse, one parsed query reused).
//! Names are given in the form the library's own parser produces: bracketed names keep their
//! quotes (single-quoted, minimal escapes), shorthand names are bare.

use jsonpath_rust::parser::model as m;
use oracle::ast::*;

fn quoted(n: &str) -> String {
    let mut out = String::new();
    oracle::render::quote(n, false, oracle::render::EscStyle::Minimal, &mut None, &mut out);
    out
}

pub fn query(q: &Query) -> m::JpQuery {
    m::JpQuery::new(q.segments.iter().map(segment).collect())
}

fn segment(s: &Segment) -> m::Segment {
    let inner = if s.selectors.len() == 1 { m::Segment::Selector(selector(&s.selectors[0])) } else { m::Segment::Selectors(s.selectors.iter().map(selector).collect()) };
    if s.descendant {
        m::Segment::Descendant(Box::new(inner))
    } else {
        inner
    }
}

fn selector(s: &Selector) -> m::Selector {
    match s {
        Selector::Name(n) => m::Selector::Name(quoted(n)),
        Selector::Wildcard => m::Selector::Wildcard,
        Selector::Index(i) => m::Selector::Index(*i),
        Selector::Slice(a, b, c) => m::Selector::Slice(*a, *b, *c),
        Selector::Filter(f) => m::Selector::Filter(or(f)),
    }
}

pub fn filter(o: &Or) -> m::Filter {
    or(o)
}

fn or(o: &Or) -> m::Filter {
    let ands: Vec<m::Filter> = o.0.iter().map(and).collect();
    if ands.len() == 1 {
        ands.into_iter().next().unwrap()
    } else {
        m::Filter::Or(ands)
    }
}

fn and(a: &And) -> m::Filter {
    let bs: Vec<m::Filter> = a.0.iter().map(|b| m::Filter::Atom(basic(b))).collect();
    if bs.len() == 1 {
        bs.into_iter().next().unwrap()
    } else {
        m::Filter::And(bs)
    }
}

fn basic(b: &Basic) -> m::FilterAtom {
    match b {
        Basic::Paren { not, inner } => m::FilterAtom::filter(or(inner), *not),
        Basic::Test { not, test } => m::FilterAtom::test(test_expr(test), *not),
        Basic::Cmp { lhs, op, rhs } => {
            let (l, r) = (comparable(lhs), comparable(rhs));
            m::FilterAtom::cmp(Box::new(match op {
                CmpOp::Eq => m::Comparison::Eq(l, r),
                CmpOp::Ne => m::Comparison::Ne(l, r),
                CmpOp::Lt => m::Comparison::Lt(l, r),
                CmpOp::Le => m::Comparison::Lte(l, r),
                CmpOp::Gt => m::Comparison::Gt(l, r),
                CmpOp::Ge => m::Comparison::Gte(l, r),
            }))
        }
    }
}

fn test_expr(t: &TestExpr) -> m::Test {
    match t {
        TestExpr::Query(q) => match q.root {
            Root::Root => m::Test::AbsQuery(query(q)),
            Root::Current => m::Test::RelQuery(q.segments.iter().map(segment).collect()),
        },
        TestExpr::Func(f) => m::Test::Function(Box::new(func(f))),
    }
}

fn literal(l: &Literal) -> m::Literal {
    match l {
        Literal::Null => m::Literal::Null,
        Literal::True => m::Literal::Bool(true),
        Literal::False => m::Literal::Bool(false),
        Literal::Str(s) => m::Literal::String(s.clone()),
        Literal::Num { value: NumVal::Int(i), .. } => m::Literal::Int(*i),
        Literal::Num { value: NumVal::Float(f), .. } => m::Literal::Float(*f),
    }
}

fn comparable(c: &Comparable) -> m::Comparable {
    match c {
        Comparable::Lit(l) => m::Comparable::Literal(literal(l)),
        Comparable::Func(f) => m::Comparable::Function(func(f)),
        Comparable::Singular { root, steps } => {
            let segs: Vec<m::SingularQuerySegment> = steps
                .iter()
                .map(|s| match s {
                    SingStep::Name(n) => m::SingularQuerySegment::Name(quoted(n)),
                    SingStep::Index(i) => m::SingularQuerySegment::Index(*i),
                })
                .collect();
            m::Comparable::SingularQuery(match root {
                Root::Root => m::SingularQuery::Root(segs),
                Root::Current => m::SingularQuery::Current(segs),
            })
        }
    }
}

fn arg(a: &Arg) -> m::FnArg {
    match a {
        Arg::Lit(l) => m::FnArg::Literal(literal(l)),
        Arg::Query(q) => m::FnArg::Test(Box::new(test_expr(&TestExpr::Query(q.clone())))),
        Arg::Func(f) => m::FnArg::Test(Box::new(m::Test::Function(Box::new(func(f))))),
        Arg::Logical(o) => m::FnArg::Filter(or(o)),
    }
}

fn func(f: &FuncCall) -> m::TestFunction {
    let args: Vec<m::FnArg> = f.args.iter().map(arg).collect();
    match (f.name.as_str(), args.len()) {
        ("length", 1) => m::TestFunction::Length(Box::new(args[0].clone())),
        ("count", 1) => m::TestFunction::Count(args[0].clone()),
        ("value", 1) => m::TestFunction::Value(args[0].clone()),
        ("match", 2) => m::TestFunction::Match(args[0].clone(), args[1].clone()),
        ("search", 2) => m::TestFunction::Search(args[0].clone(), args[1].clone()),
        _ => m::TestFunction::Custom(f.name.clone(), args),
    }
}
