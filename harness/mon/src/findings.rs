//! Known findings (DESIGN 2.8): /verif/known_findings.json is read (never written) at the start
//! of a check. Each entry's witness is replayed against the current tree:
//!   open  + witness still fails as recorded -> print KNOWN-FINDING, arm its signature
//!   open  + witness no longer fails         -> silent, signature stays disarmed
//!   fixed                                   -> regression case: must pass, else VIOLATION
//! A signature is a trigger predicate over the *input* plus (where exact) an effect model.

use crate::ctx::{verif_dir, Ctx};
use crate::libapi::{self, Doc, LibOutcome};
use serde_json::{json, Value};
use std::collections::HashSet;

#[derive(Debug, Clone)]
pub struct Finding {
    pub id: String,
    pub property: String,
    pub status: String,
    pub what_fails: String,
    pub witness: Value,
    pub trigger: String,
    pub effect: String,
}

#[derive(Debug, Default, Clone)]
pub struct Armed {
    /// trigger names armed for this property
    pub triggers: HashSet<String>,
    pub ids: Vec<(String, String)>, // (trigger, finding id)
    /// witness parameters of armed findings (e.g. first failing rung)
    pub params: Vec<(String, Value)>,
}

impl Armed {
    /// the armed signatures as handed to worker children
    pub fn to_env(&self) -> String {
        serde_json::to_string(&json!({"triggers": self.triggers.iter().collect::<Vec<_>>(), "ids": self.ids, "params": self.params})).unwrap_or_default()
    }
    pub fn from_env() -> Armed {
        let mut a = Armed::default();
        if let Ok(s) = std::env::var("VERIF_ARMED") {
            if let Ok(v) = serde_json::from_str::<Value>(&s) {
                for t in v["triggers"].as_array().cloned().unwrap_or_default() {
                    if let Some(t) = t.as_str() {
                        a.triggers.insert(t.to_string());
                    }
                }
                for p in v["ids"].as_array().cloned().unwrap_or_default() {
                    if let (Some(x), Some(y)) = (p[0].as_str(), p[1].as_str()) {
                        a.ids.push((x.to_string(), y.to_string()));
                    }
                }
                for p in v["params"].as_array().cloned().unwrap_or_default() {
                    if let Some(x) = p[0].as_str() {
                        a.params.push((x.to_string(), p[1].clone()));
                    }
                }
            }
        }
        a
    }
    pub fn has(&self, trigger: &str) -> bool {
        self.triggers.contains(trigger)
    }
    pub fn id_of(&self, trigger: &str) -> String {
        self.ids.iter().find(|(t, _)| t == trigger).map(|(_, i)| i.clone()).unwrap_or_else(|| trigger.to_string())
    }
    pub fn param(&self, trigger: &str) -> Option<&Value> {
        self.params.iter().find(|(t, _)| t == trigger).map(|(_, v)| v)
    }
}

pub fn load() -> Result<Vec<Finding>, String> {
    let path = verif_dir().join("known_findings.json");
    let text = match std::fs::read_to_string(&path) {
        Ok(t) => t,
        Err(_) => return Ok(vec![]),
    };
    let v: Value = serde_json::from_str(&text).map_err(|e| format!("known_findings.json: {}", e))?;
    let mut out = vec![];
    for f in v.get("findings").and_then(|f| f.as_array()).cloned().unwrap_or_default() {
        let s = |k: &str| f.get(k).and_then(|x| x.as_str()).unwrap_or("").to_string();
        out.push(Finding {
            id: s("id"),
            property: s("property"),
            status: s("status"),
            what_fails: s("what_fails"),
            witness: f.get("witness").cloned().unwrap_or(Value::Null),
            trigger: f.get("signature").and_then(|x| x.get("trigger")).and_then(|x| x.as_str()).unwrap_or("").to_string(),
            effect: f.get("signature").and_then(|x| x.get("effect")).and_then(|x| x.as_str()).unwrap_or("").to_string(),
        });
    }
    Ok(out)
}

#[derive(Debug, PartialEq)]
pub enum WitnessState {
    /// behaves as the property demands
    Passes,
    /// fails exactly as recorded
    FailsAsRecorded,
    /// fails, but differently from what was recorded
    FailsDifferently(String),
    /// this build of the harness cannot replay that witness kind in-process
    NotReplayable,
    /// the monitor replays this witness as part of its own run and arms the signature itself
    Deferred,
}

fn paths_of(v: &Value, key: &str) -> Option<Vec<String>> {
    v.get(key).and_then(|x| x.as_array()).map(|a| a.iter().filter_map(|s| s.as_str().map(|s| s.to_string())).collect())
}

pub fn replay_witness(w: &Value) -> WitnessState {
    match w.get("kind").and_then(|k| k.as_str()).unwrap_or("") {
        "query" => {
            let q = w.get("query").and_then(|x| x.as_str()).unwrap_or("");
            let doc = Doc::from_value(w.get("document").cloned().unwrap_or(Value::Null));
            let expected = paths_of(w, "expected");
            let observed = paths_of(w, "observed");
            let out = libapi::query_with_path(q, &doc.value);
            // what is compared: "paths" (default) = the reported path strings; "nodes" = the
            // normalized paths of the returned nodes found by address
            let by_nodes = w.get("compare").and_then(|x| x.as_str()) == Some("nodes");
            let got: Result<Vec<String>, String> = match &out {
                LibOutcome::Ok(ns) => {
                    if by_nodes {
                        match doc.locs(ns) {
                            Some(ls) => Ok(ls.iter().map(|l| oracle::npath::render(l)).collect()),
                            None => Err("foreign node".into()),
                        }
                    } else {
                        Ok(ns.iter().map(|(_, p)| p.clone()).collect())
                    }
                }
                LibOutcome::Err(e) => Err(format!("error: {}", e)),
                LibOutcome::Panic(p) => Err(format!("panic: {}", p)),
            };
            match (&got, &expected) {
                (Ok(g), Some(e)) if g == e => WitnessState::Passes,
                _ => {
                    let rec_err = w.get("observed_error").and_then(|x| x.as_bool()).unwrap_or(false);
                    match (&got, &observed) {
                        (Ok(g), Some(o)) if g == o => WitnessState::FailsAsRecorded,
                        (Err(_), _) if rec_err => WitnessState::FailsAsRecorded,
                        _ => WitnessState::FailsDifferently(format!("{:?}", got)),
                    }
                }
            }
        }
        "accept" => {
            let s = w.get("string").and_then(|x| x.as_str()).unwrap_or("");
            let want_accept = w.get("expected").and_then(|x| x.as_str()) == Some("accept");
            match libapi::accepts(s) {
                Some(a) if a == want_accept => WitnessState::Passes,
                Some(_) => WitnessState::FailsAsRecorded,
                None => WitnessState::FailsDifferently("panic".into()),
            }
        }
        "reference" => {
            use jsonpath_rust::query::queryable::Queryable;
            let doc = Doc::from_value(w.get("document").cloned().unwrap_or(Value::Null));
            let path = w.get("path").and_then(|x| x.as_str()).unwrap_or("").to_string();
            let expected = w.get("expected").and_then(|x| x.as_str()).map(|s| s.to_string());
            let observed = w.get("observed").and_then(|x| x.as_str()).map(|s| s.to_string());
            let got = std::panic::catch_unwind(std::panic::AssertUnwindSafe(|| doc.value.reference(path.clone()).map(libapi::addr)));
            let got: Option<String> = match got {
                Ok(Some(a)) => Some(doc.loc_of(a).map(|l| oracle::npath::render(l)).unwrap_or_else(|| "<foreign>".into())),
                Ok(None) => None,
                Err(_) => Some("<panic>".into()),
            };
            if got == expected {
                WitnessState::Passes
            } else if got == observed {
                WitnessState::FailsAsRecorded
            } else {
                WitnessState::FailsDifferently(format!("{:?}", got))
            }
        }
        _ => WitnessState::NotReplayable,
    }
}

/// Replays the witnesses of this property's entries; returns what is armed. Fixed entries whose
/// witness fails are reported as violations. `external` lets a monitor replay witness kinds that
/// need its own machinery (isolated worker): it returns None for kinds it does not know.
pub fn arm(ctx: &Ctx, external: &dyn Fn(&Value) -> Option<WitnessState>) -> Result<Armed, String> {
    let all = load()?;
    let mut armed = Armed::default();
    for f in all.iter().filter(|f| f.property == ctx.prop) {
        let st = match external(&f.witness) {
            Some(s) => s,
            None => replay_witness(&f.witness),
        };
        match (f.status.as_str(), st) {
            ("open", WitnessState::FailsAsRecorded) => {
                ctx.known_lines.lock().unwrap().push(format!("KNOWN-FINDING: property={} {} {}", ctx.prop, f.id, f.what_fails));
                armed.triggers.insert(f.trigger.clone());
                armed.ids.push((f.trigger.clone(), f.id.clone()));
                armed.params.push((f.trigger.clone(), f.witness.clone()));
            }
            (_, WitnessState::Deferred) => {}
            ("open", WitnessState::Passes) => {
                eprintln!("note: open finding {} no longer reproduces; its signature stays disarmed", f.id);
            }
            ("open", WitnessState::FailsDifferently(how)) => {
                // not the recorded failure: do not arm; the normal workload will report it
                eprintln!("note: open finding {} fails differently from its record ({}); signature not armed", f.id, how);
            }
            ("open", WitnessState::NotReplayable) => return Err(format!("finding {}: witness kind not replayable", f.id)),
            ("fixed", WitnessState::Passes) => {}
            ("fixed", WitnessState::NotReplayable) => return Err(format!("finding {}: witness kind not replayable", f.id)),
            ("fixed", st) => {
                ctx.violate(
                    &format!("regression of fixed finding {} ({}): {:?}", f.id, f.what_fails, st),
                    json!({"kind": "fixed-witness", "finding": f.id, "witness": f.witness}),
                );
            }
            (other, _) => return Err(format!("finding {}: unknown status {}", f.id, other)),
        }
    }
    Ok(armed)
}
