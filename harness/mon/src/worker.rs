//! Isolated worker processes (DESIGN 2.6): a child runs a range of cases of a deterministic case
//! set, logging `B <idx>` *before* invoking the library and `E <idx> <json>` after. The
//! supervisor attributes a death (signal, abort, stack overflow) or a CPU-time overrun to the
//! open case, records it, and restarts after it. Verdicts on termination use the child's CPU
//! time (from /proc), not the wall clock.

use crate::ctx::{Acc, Ctx};
use serde_json::{json, Value};
use std::io::{BufRead, BufReader, Write};
use std::os::unix::process::{CommandExt, ExitStatusExt};
use std::path::PathBuf;
use std::process::{Command, Stdio};
use std::sync::atomic::{AtomicUsize, Ordering};
use std::sync::mpsc;
use std::time::{Duration, Instant};

/// results shipped by children (`R` lines) of the current run_isolated call
pub static RESULTS: std::sync::Mutex<Vec<(usize, Value)>> = std::sync::Mutex::new(Vec::new());

pub trait CaseSet: Sync {
    fn len(&self) -> usize;
    /// runs case idx against the library; returns violations (what, replay json)
    fn run(&self, idx: usize, acc: &mut Acc) -> Vec<(String, Value)>;
    /// description of the case for replay files written by the supervisor
    fn describe(&self, idx: usize) -> Value;
    /// optional result data of a case, shipped to the supervisor (`R <idx> <json>`)
    fn result(&self, _idx: usize) -> Option<Value> {
        None
    }
    /// CPU-seconds one case may use before it counts as "did not terminate"
    fn cpu_budget_s(&self, _idx: usize) -> f64 {
        30.0
    }
}

pub fn acc_to_json(a: &Acc) -> Value {
    json!({
        "evaluations": a.evaluations,
        "nontrivial": a.nontrivial.iter().collect::<Vec<_>>(),
        "samples": a.samples,
        "counters": a.counters,
        "sets": a.sets.iter().map(|(k, v)| (k.clone(), v.iter().cloned().collect::<Vec<_>>())).collect::<std::collections::BTreeMap<_, _>>(),
    })
}
pub fn acc_from_json(v: &Value) -> Acc {
    let mut a = Acc::default();
    a.evaluations = v["evaluations"].as_u64().unwrap_or(0);
    for h in v["nontrivial"].as_array().cloned().unwrap_or_default() {
        if let Some(h) = h.as_u64() {
            a.nontrivial.insert(h);
        }
    }
    a.samples = v["samples"].as_array().cloned().unwrap_or_default();
    if let Some(o) = v["counters"].as_object() {
        for (k, n) in o {
            a.counters.insert(k.clone(), n.as_u64().unwrap_or(0));
        }
    }
    if let Some(o) = v["sets"].as_object() {
        for (k, items) in o {
            let s = a.sets.entry(k.clone()).or_default();
            for i in items.as_array().cloned().unwrap_or_default() {
                if let Some(i) = i.as_str() {
                    s.insert(i.to_string());
                }
            }
        }
    }
    a
}

/// child side
pub fn child_loop(set: &dyn CaseSet, from: usize, to: usize) -> i32 {
    let out = std::io::stdout();
    let mut acc = Acc::default();
    for idx in from..to.min(set.len()) {
        {
            let mut o = out.lock();
            let _ = writeln!(o, "B {}", idx);
            let _ = o.flush();
        }
        let vs = set.run(idx, &mut acc);
        if let Some(r) = set.result(idx) {
            let mut o = out.lock();
            let _ = writeln!(o, "R {} {}", idx, serde_json::to_string(&r).unwrap_or_else(|_| "null".into()));
        }
        let payload: Vec<Value> = vs.into_iter().map(|(w, r)| json!({"what": w, "replay": r})).collect();
        let mut o = out.lock();
        let _ = writeln!(o, "E {} {}", idx, serde_json::to_string(&payload).unwrap_or_else(|_| "[]".into()));
        let _ = o.flush();
    }
    let mut o = out.lock();
    let _ = writeln!(o, "S {}", serde_json::to_string(&acc_to_json(&acc)).unwrap_or_default());
    let _ = o.flush();
    0
}

fn proc_cpu_seconds(pid: u32) -> Option<f64> {
    let s = std::fs::read_to_string(format!("/proc/{}/stat", pid)).ok()?;
    let rest = &s[s.rfind(')')? + 2..];
    let f: Vec<&str> = rest.split_whitespace().collect();
    let utime: f64 = f.get(11)?.parse().ok()?;
    let stime: f64 = f.get(12)?.parse().ok()?;
    Some((utime + stime) / 100.0)
}

pub struct Isolation {
    pub exe: PathBuf,
    /// arguments that make the child build the same case set: ["worker", prop, family, tier]
    pub args: Vec<String>,
    pub stack_bytes: Option<u64>,
    pub mem_bytes: Option<u64>,
    pub env: Vec<(String, String)>,
    /// cases per child process (None = automatic); Some(1) = a fresh process for every case
    pub chunk: Option<usize>,
    /// stop scheduling further cases after this many worker deaths
    pub max_deaths: usize,
}

/// an open case whose process has used no CPU for this long is blocked, not slow
const STALL_SECONDS: u64 = 30;

#[derive(Debug)]
pub enum Death {
    Signal(i32, String),
    Exit(i32, String),
    CpuTimeout(f64),
    /// the open case used no CPU time at all for this many wall-clock seconds: the process is
    /// blocked (a lock taken twice, a lock-order inversion), which no CPU budget can notice
    Stalled(f64),
    WallTimeout,
}

/// Runs cases [0, n) of `set` in child processes on `shards` parallel supervisors.
/// Deaths are passed to `on_death(idx, death)`; violations reported by children go to ctx.
pub fn run_isolated(ctx: &Ctx, set: &dyn CaseSet, iso: &Isolation, shards: usize, on_death: &(dyn Fn(usize, Death) + Sync)) -> Acc {
    let n = set.len();
    let next = AtomicUsize::new(0);
    // a tree on which workers keep dying is already refuted: stop after a few deaths instead of
    // spending the CPU budget of every remaining case
    let deaths = AtomicUsize::new(0);
    let max_deaths = iso.max_deaths.max(1);
    let chunk = iso.chunk.unwrap_or_else(|| (n / (shards * 4).max(1)).clamp(1, 20_000));
    let accs: Vec<Acc> = std::thread::scope(|s| {
        let hs: Vec<_> = (0..shards.max(1))
            .map(|_| {
                s.spawn(|| {
                    let mut total = Acc::default();
                    loop {
                        let st = next.fetch_add(chunk, Ordering::SeqCst);
                        if st >= n || deaths.load(Ordering::SeqCst) >= max_deaths {
                            break;
                        }
                        let en = (st + chunk).min(n);
                        let mut from = st;
                        while from < en {
                            let (done_upto, acc, death) = supervise_once(ctx, set, iso, from, en);
                            total = Acc::merge(vec![total, acc]);
                            match death {
                                None => break,
                                Some((idx, d)) => {
                                    on_death(idx, d);
                                    from = idx + 1;
                                    let _ = done_upto;
                                    if deaths.fetch_add(1, Ordering::SeqCst) + 1 >= max_deaths {
                                        next.store(n, Ordering::SeqCst);
                                        break;
                                    }
                                }
                            }
                        }
                    }
                    total
                })
            })
            .collect();
        hs.into_iter().map(|h| h.join().expect("supervisor thread")).collect()
    });
    Acc::merge(accs)
}

/// one child for [from, to); returns (next index not finished, child's acc if it got that far,
/// Some((idx, death)) if the child died / was killed with case idx open)
fn supervise_once(ctx: &Ctx, set: &dyn CaseSet, iso: &Isolation, from: usize, to: usize) -> (usize, Acc, Option<(usize, Death)>) {
    let mut cmd = Command::new(&iso.exe);
    cmd.args(&iso.args).arg(from.to_string()).arg(to.to_string());
    cmd.stdin(Stdio::null()).stdout(Stdio::piped()).stderr(Stdio::piped());
    cmd.env("VERIF_SEED", (ctx.seed as i64).to_string());
    for (k, v) in &iso.env {
        cmd.env(k, v);
    }
    let stack = iso.stack_bytes;
    let mem = iso.mem_bytes;
    unsafe {
        cmd.pre_exec(move || {
            if let Some(s) = stack {
                let r = libc::rlimit { rlim_cur: s, rlim_max: s };
                libc::setrlimit(libc::RLIMIT_STACK, &r);
            }
            if let Some(m) = mem {
                let r = libc::rlimit { rlim_cur: m, rlim_max: m };
                libc::setrlimit(libc::RLIMIT_AS, &r);
            }
            // a worker must not outlive its supervisor (a killed check would otherwise leave
            // runaway children behind)
            libc::prctl(libc::PR_SET_PDEATHSIG, libc::SIGKILL);
            // no core files
            let r = libc::rlimit { rlim_cur: 0, rlim_max: 0 };
            libc::setrlimit(libc::RLIMIT_CORE, &r);
            Ok(())
        });
    }
    let mut child = match cmd.spawn() {
        Ok(c) => c,
        Err(e) => {
            ctx.add_inconclusive(&format!("worker could not be started: {}", e), (to - from) as u64);
            return (to, Acc::default(), None);
        }
    };
    let pid = child.id();
    let stdout = child.stdout.take().unwrap();
    let stderr = child.stderr.take().unwrap();
    let (tx, rx) = mpsc::channel::<String>();
    let reader = std::thread::spawn(move || {
        for line in BufReader::new(stdout).lines().flatten() {
            if tx.send(line).is_err() {
                break;
            }
        }
    });
    let err_reader = std::thread::spawn(move || {
        let mut tail = String::new();
        for line in BufReader::new(stderr).lines().flatten() {
            tail.push_str(&line);
            tail.push('\n');
            if tail.len() > 4000 {
                tail = tail[tail.len() - 2000..].to_string();
            }
        }
        tail
    });
    let mut open: Option<(usize, f64, Instant)> = None; // idx, cpu at begin, wall at begin
    let mut progress: (f64, Instant) = (0.0, Instant::now()); // last CPU reading that differed, when
    let mut acc = Acc::default();
    let mut finished = false;
    let mut killed: Option<Death> = None;
    loop {
        match rx.recv_timeout(Duration::from_millis(250)) {
            Ok(line) => {
                if let Some(rest) = line.strip_prefix("B ") {
                    let idx: usize = rest.trim().parse().unwrap_or(from);
                    open = Some((idx, proc_cpu_seconds(pid).unwrap_or(0.0), Instant::now()));
                    progress = (open.as_ref().unwrap().1, Instant::now());
                } else if let Some(rest) = line.strip_prefix("E ") {
                    let mut it = rest.splitn(2, ' ');
                    let _idx = it.next();
                    if let Some(p) = it.next() {
                        if let Ok(Value::Array(vs)) = serde_json::from_str::<Value>(p) {
                            for v in vs {
                                ctx.violate(v["what"].as_str().unwrap_or("?"), v["replay"].clone());
                            }
                        }
                    }
                    open = None;
                } else if let Some(rest) = line.strip_prefix("R ") {
                    let mut it = rest.splitn(2, ' ');
                    if let (Some(i), Some(p)) = (it.next(), it.next()) {
                        if let (Ok(i), Ok(v)) = (i.parse::<usize>(), serde_json::from_str::<Value>(p)) {
                            RESULTS.lock().unwrap().push((i, v));
                        }
                    }
                } else if let Some(rest) = line.strip_prefix("S ") {
                    if let Ok(v) = serde_json::from_str::<Value>(rest) {
                        acc = acc_from_json(&v);
                    }
                    finished = true;
                }
            }
            Err(mpsc::RecvTimeoutError::Timeout) => {
                if let Some((idx, cpu0, wall0)) = &open {
                    let now_cpu = proc_cpu_seconds(pid).unwrap_or(*cpu0);
                    if now_cpu > progress.0 + 0.015 {
                        progress = (now_cpu, Instant::now());
                    } else if progress.1.elapsed() > Duration::from_secs(STALL_SECONDS) {
                        let _ = child.kill();
                        killed = Some(Death::Stalled(progress.1.elapsed().as_secs_f64()));
                        break;
                    }
                    let cpu = now_cpu - cpu0;
                    if cpu > set.cpu_budget_s(*idx) {
                        let _ = child.kill();
                        killed = Some(Death::CpuTimeout(cpu));
                        break;
                    }
                    if wall0.elapsed() > Duration::from_secs(600) {
                        let _ = child.kill();
                        killed = Some(Death::WallTimeout);
                        break;
                    }
                }
            }
            Err(mpsc::RecvTimeoutError::Disconnected) => break,
        }
    }
    let status = child.wait().ok();
    let _ = reader.join();
    let tail = err_reader.join().unwrap_or_default();
    if let Some(d) = killed {
        let idx = open.map(|o| o.0).unwrap_or(from);
        return (idx, acc, Some((idx, d)));
    }
    if finished {
        return (to, acc, None);
    }
    // child ended without its summary: died with a case open (or before the first case)
    let idx = open.map(|o| o.0).unwrap_or(from);
    let death = match status {
        Some(s) => match s.signal() {
            Some(sig) => Death::Signal(sig, tail),
            None => Death::Exit(s.code().unwrap_or(-1), tail),
        },
        None => Death::Exit(-1, tail),
    };
    (idx, acc, Some((idx, death)))
}

pub fn exe_for(profile: &str) -> PathBuf {
    // coverage runs point every worker at the instrumented binary
    if let Ok(p) = std::env::var("VERIF_WORKER_EXE") {
        return PathBuf::from(p);
    }
    crate::ctx::verif_dir().join("target").join(profile).join("vfmon")
}
