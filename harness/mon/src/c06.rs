//! C06 (every valid RFC 9535 query is accepted) and C07 (every invalid string is rejected).
//! Oracle: the two independent recognisers (a) ABNF table + set matcher and (b) hand-written
//! parser + validity rules, cross-checked on every string judged. One workload, two verdicts.

use crate::ctx::{par_run, Acc, Ctx, Evidence, Tier};
use crate::findings::{arm, Armed};
use crate::libapi::{self, Doc};
use oracle::abnf::Deriver;
use oracle::gen;
use oracle::parse::{analyze, Class, Parsed, Reason};
use oracle::render::{render, Blanks, EscStyle, NameStyle, Spelling};
use oracle::rng::Rng;
use oracle::selftest::Recognisers;
use serde_json::json;

const GENERAL: [char; 24] = ['$', '.', '[', ']', '*', '\'', '"', 'a', '0', '1', '-', ':', ',', '?', '@', '(', ')', '!', '=', '<', '&', '|', ' ', '\\'];
const FILTER: [char; 20] = ['@', '$', '.', '[', ']', 'a', '1', '\'', '=', '!', '<', '>', '&', '|', '(', ')', ',', '*', '-', ' '];

fn nth_string(alpha: &[char], mut idx: usize, max_len: usize) -> String {
    // enumerate all strings of length 0..=max_len in length-then-lexicographic order
    let base = alpha.len();
    let mut len = 0;
    let mut count = 1usize;
    while len <= max_len {
        if idx < count {
            break;
        }
        idx -= count;
        count *= base;
        len += 1;
    }
    let mut chars = vec![' '; len];
    for k in (0..len).rev() {
        chars[k] = alpha[idx % base];
        idx /= base;
    }
    chars.into_iter().collect()
}
fn count_strings(base: usize, max_len: usize) -> usize {
    let mut total = 0;
    let mut c = 1;
    for _ in 0..=max_len {
        total += c;
        c *= base;
    }
    total
}

/// the named near misses of the property statement, so that every reason code is exercised
pub fn near_miss_table() -> Vec<(&'static str, Reason)> {
    vec![
        ("$.a b", Reason::BlankNotAllowed),
        ("$. a", Reason::BlankNotAllowed),
        ("$.. a", Reason::BlankNotAllowed),
        ("$ .a ", Reason::BlankNotAllowed),
        (" $.a", Reason::Syntax),
        ("$[1 0]", Reason::Syntax),
        ("$[?@.a == 1 0]", Reason::Syntax),
        ("$[?@.a == tr ue]", Reason::Syntax),
        ("$[?len gth(@.a) == 1]", Reason::Syntax),
        ("$[?length (@.a) == 1]", Reason::BlankNotAllowed),
        ("$[?@.a = = 1]", Reason::Syntax),
        ("$[?@.a & & @.b]", Reason::Syntax),
        ("$[-0]", Reason::MinusZero),
        ("$[01]", Reason::LeadingZero),
        ("$[1:01]", Reason::LeadingZero),
        ("$[::-0]", Reason::MinusZero),
        ("$[9007199254740992]", Reason::IntRange),
        ("$[-9007199254740992]", Reason::IntRange),
        ("$[:9007199254740992]", Reason::IntRange),
        ("$[::9007199254740992]", Reason::IntRange),
        ("$[9223372036854775808]", Reason::IntRange),
        ("$[?@[9007199254740992] == 1]", Reason::IntRange),
        ("$[?@[-9223372036854775808] == 1]", Reason::IntRange),
        ("$[-9223372036854775808]", Reason::IntRange),
        ("$[:-9223372036854775808]", Reason::IntRange),
        ("$[::-9223372036854775808]", Reason::IntRange),
        ("$..[-9223372036854775808]", Reason::IntRange),
        ("$[9223372036854775807]", Reason::IntRange),
        ("$['a\\\\']. b", Reason::BlankNotAllowed),
        ("$['\\\\'].. *", Reason::BlankNotAllowed),
        ("$[?@.a == 'x\\\\']. b", Reason::BlankNotAllowed),
        ("$[?@['\\\\']. b == 1]", Reason::BlankNotAllowed),
        ("$[?@.k == \"\\\\\" && @. b == 1]", Reason::BlankNotAllowed),
        ("$[\"a\\\\\"] . b", Reason::BlankNotAllowed),
        ("$['a\u{1}b']", Reason::ControlChar),
        ("$['a\tb']", Reason::ControlChar),
        ("$[\"a\nb\"]", Reason::ControlChar),
        ("$[?@.a == 'a\u{0}']", Reason::ControlChar),
        ("$[?@['a\u{1}b'] == 1]", Reason::ControlChar),
        ("$[?1 == @[\"\t\"]]", Reason::ControlChar),
        ("$[?$['a\n'] != @.a]", Reason::ControlChar),
        ("$[?count(@.*) == $[\"\u{1f}\"]]", Reason::ControlChar),
        ("$['\\x']", Reason::BadEscape),
        ("$['\\u12']", Reason::BadEscape),
        ("$['\\U0041']", Reason::BadEscape),
        ("$['\\\"']", Reason::BadEscape),
        ("$[\"\\'\"]", Reason::BadEscape),
        ("$['\\uD800']", Reason::LoneSurrogate),
        ("$['\\ud800']", Reason::LoneSurrogate),
        ("$['\\uDC00']", Reason::LoneSurrogate),
        ("$['\\udfff']", Reason::LoneSurrogate),
        ("$['\\uD800\\uD800']", Reason::LoneSurrogate),
        ("$['\\ud83d\\u0041']", Reason::LoneSurrogate),
        ("$[?@.* == 1]", Reason::NonSingularInComparison),
        ("$[?@[0,1] == 1]", Reason::NonSingularInComparison),
        ("$[?@[1:] == 1]", Reason::NonSingularInComparison),
        ("$[?@..a == 1]", Reason::NonSingularInComparison),
        ("$[?@[?@.a] == 1]", Reason::NonSingularInComparison),
        ("$[?1 == @.*]", Reason::NonSingularInComparison),
        ("$[?1]", Reason::LiteralAsTest),
        ("$[?'a']", Reason::LiteralAsTest),
        ("$[?true]", Reason::LiteralAsTest),
        ("$[?@.a && null]", Reason::LiteralAsTest),
        ("$[?length(@.a, @.b) == 1]", Reason::FnArity),
        ("$[?length() == 1]", Reason::FnArity),
        ("$[?count() == 1]", Reason::FnArity),
        ("$[?match(@.a)]", Reason::FnArity),
        ("$[?search(@.a, 'b', 'c')]", Reason::FnArity),
        ("$[?value() == 1]", Reason::FnArity),
        ("$[?length(@.*) == 1]", Reason::FnArgType),
        ("$[?count(1) == 1]", Reason::FnArgType),
        ("$[?value(1) == 1]", Reason::FnArgType),
        ("$[?match(@.*, 'a')]", Reason::FnArgType),
        ("$[?search(@.a, @.*)]", Reason::FnArgType),
        ("$[?length(@.a == 1) == 1]", Reason::FnArgType),
        ("$[?count(length(@.a)) == 1]", Reason::FnArgType),
        ("$[?length(match(@.a,'b')) == 1]", Reason::FnArgType),
        ("$[?length(@.a)]", Reason::FnResultAsTest),
        ("$[?count(@.a)]", Reason::FnResultAsTest),
        ("$[?value(@.a)]", Reason::FnResultAsTest),
        ("$[?!length(@.a)]", Reason::FnResultAsTest),
        ("$[?match(@.a, 'b') == true]", Reason::FnResultCompared),
        ("$[?search(@.a, 'b') != false]", Reason::FnResultCompared),
        ("$[?true == match(@.a, 'b')]", Reason::FnResultCompared),
        ("$", Reason::Syntax), // placeholder replaced below (valid) - filtered out by class
    ]
}

/// curated valid spellings: every escape form, every blank position, every number format...
pub fn curated_valid() -> Vec<&'static str> {
    vec![
        "$", "$.a", "$['a']", "$[\"a\"]", "$.a.b", "$.a['b'][\"c\"]", "$[0]", "$[-1]", "$[9007199254740991]", "$[-9007199254740991]", "$[1:2]", "$[1:2:3]", "$[-9007199254740991:]", "$[::-9007199254740991]", "$[-1000000000000000:2]", "$['a\\\\']", "$[\"\\\\\"]", "$[?@.dir == 'C:\\\\tmp\\\\']", "$[?@['k\\\\'] == 1]", "$[:]", "$[::]", "$[1:]", "$[:2]", "$[::2]", "$[::-1]",
        "$[ 1 : 2 : 3 ]", "$[1 :2: 3]", "$[\t1\n:\r2 ]", "$[:9007199254740991:-9007199254740991]", "$.*", "$[*]", "$..*", "$..[*]", "$..a", "$..['a']", "$..[0]", "$..[1:2]", "$..[?@.a]", "$[0,1]", "$[ 0 , 1 ]", "$['a','b']",
        "$[*,0,'a',1:2,?@.a]", "$ .a", "$\t.a", "$\n['a']", "$.a [0]", "$.a\r\n.b", "$[?@.a]", "$[? @.a]", "$[?(@.a)]", "$[?((@.a))]", "$[?!@.a]", "$[?! @.a]", "$[?!(@.a)]", "$[?! (@.a)]", "$[?@.a==1]", "$[?@.a == 1]",
        "$[?@.a\t==\n1]", "$[?1==@.a]", "$[?@.a!=1]", "$[?@.a<1]", "$[?@.a<=1]", "$[?@.a>1]", "$[?@.a>=1]", "$[?@.a=='b']", "$[?@.a==\"b\"]", "$[?@.a==true]", "$[?@.a==false]", "$[?@.a==null]", "$[?@.a==-0]", "$[?@.a==0.0]",
        "$[?@.a==1.5]", "$[?@.a==-1.5]", "$[?@.a==1e2]", "$[?@.a==1E2]", "$[?@.a==1e+2]", "$[?@.a==1e-2]", "$[?@.a==1.5e2]", "$[?@.a==-0.0e-0]", "$[?@.a==100.0]", "$[?@.a==9007199254740991]", "$[?@ == @]", "$[?$ == $]",
        "$[?@.a == $.b]", "$[?@['a'] == $[\"b\"]]", "$[?@[0] == @[-1]]", "$[?@ .a == 1]", "$[?@.a .b == 1]", "$[?@.a[0] .b == 1]", "$[?@.a && @.b]", "$[?@.a&&@.b]", "$[?@.a || @.b]", "$[?@.a||@.b&&@.c]", "$[?(@.a||@.b)&&@.c]",
        "$[?@.a && (@.b || !@.c)]", "$[?!(@.a && @.b) || !(@.c)]", "$[?@[?@.a]]", "$[?@[?@[?@.a]]]", "$[?@.a[?@.b == $.c]]", "$[?@..a]", "$[?$..a]", "$[?@.*]", "$[?@[*]]", "$[?@[0,1]]", "$[?@[1:2]]", "$[?@['a','b']]",
        "$[?length(@.a) == 1]", "$[?length(@) > 1]", "$[?length('abc') == 3]", "$[?length($.a) == 1]", "$[?count(@.*) == 1]", "$[?count(@..a) > 0]", "$[?count($[*]) == 1]", "$[?value(@.a) == 1]", "$[?value(@..a) == 'x']",
        "$[?match(@.a, 'b')]", "$[?match(@.a,\"b\")]", "$[?!match(@.a, 'b')]", "$[?search(@.a, 'b')]", "$[?search(@, $.p)]", "$[?match( @.a , 'b' )]", "$[?match(\t@.a\n,\r'b' )]", "$[?length(value(@..a)) == 1]",
        "$[?match(value(@.a), 'b')]", "$[?length(@.a) == length(@.b)]", "$[?count(@.*) == length(@)]", "$[?match(@.a, 'a') && search(@.b, 'b') || !match(@.c, 'c')]", "$[?length(@.a) == 1, ?count(@.*) == 2]",
        "$['\\b\\f\\n\\r\\t\\/\\\\']", "$[\"\\b\\f\\n\\r\\t\\/\\\\\"]", "$['\\'']", "$[\"\\\"\"]", "$['\"']", "$[\"'\"]", "$['\\u0041']", "$['\\u00e9']", "$['\\u00E9']", "$['\\uabcd']", "$['\\uABCD']", "$['\\uaBcD']", "$['\\ud7ff']",
        "$['\\uD7FF']", "$['\\ue000']", "$['\\uE000']", "$['\\uffff']", "$['\\uD834\\uDD1E']", "$['\\ud834\\udd1e']", "$['\\uD834\\udd1e']", "$['\\udbff\\udfff']", "$['\\uDBFF\\uDFFF']", "$['\\u0000']", "$['\\u001f']",
        "$['\u{7f}']", "$['\u{80}']", "$['\u{e9}']", "$['\u{1f600}']", "$['\u{d7ff}\u{e000}\u{10ffff}']", "$.\u{e9}", "$.\u{1f600}", "$._", "$._a1", "$.a_1", "$.A", "$.Z9", "$.\u{80}", "$.\u{10ffff}", "$..\u{e9}", "$.\u{a0}b", "$.b\u{a0}",
        "$.\u{2003}", "$..\u{3000}x", "$[?@.\u{a0}b == 1]", "$[?@.a == '\\u0041\\n']", "$[?@.a == \"\\ud834\\udd1e\"]", "$['']", "$[\"\"]", "$[' ']", "$['a b']", "$[?@.a == '']", "$[?@[''] == \"\"]", "$.true", "$.null", "$.false",
        "$.length", "$.and", "$[?@.true == true]", "$[?@.null == null]", "$[?@.length == length(@.length)]", "$[?@.a == 1 || @.b == 2 || @.c == 3 || @.d == 4]", "$[?@.a&&@.b&&@.c&&@.d]", "$.a.b.c.d.e.f.g", "$[0][1][2][3]",
        "$..a..b..c", "$[?@<1]", "$[?@>1]", "$[?1<@]", "$[?'a'<'b']", "$[?true!=false]", "$[?null==null]", "$[?-1<0]", "$[?1.0==1]", "$[?$[0]==@]", "$[?$['a'][0].b==1]",
    ]
}

pub fn run(ctx: &Ctx, reject_mode: bool) -> Result<Evidence, String> {
    let armed: Armed = arm(ctx, &|_| None)?;
    let rec = Recognisers::new();
    let mut rng = Rng::stream(ctx.seed, 6);
    let max_len = ctx.tier.pick(4, 5);
    let n_gen = count_strings(GENERAL.len(), max_len);
    let n_flt = count_strings(FILTER.len(), max_len);

    // corpus of candidate strings beyond the exhaustive families
    let mut corpus: Vec<String> = curated_valid().iter().map(|s| s.to_string()).collect();
    corpus.extend(near_miss_table().iter().map(|(s, _)| s.to_string()));
    // (i) ABNF-driven derivation
    let der = Deriver { g: &rec.strict, max_depth: 12, rep_pm: 400, s_pm: 150 };
    let n_der = ctx.tier.pick(15_000, 300_000);
    for _ in 0..n_der {
        let s = der.derive("jsonpath-query", &mut rng);
        if s.chars().count() <= 160 {
            corpus.push(s);
        }
    }
    // (ii) AST-driven rendering in all spelling dimensions
    let qcfg = gen::QueryCfg { names: ["a", "b", "x y", "\u{e9}", "'", "\"", "\\", "\n", "\u{1f600}", "", "0", "\u{a0}b"].iter().map(|s| s.to_string()).collect(), strings: ["", "a", "'", "\"", "\\", "\t", "\u{e9}\u{1f600}", "a/b"].iter().map(|s| s.to_string()).collect(), ..Default::default() };
    let n_ast = ctx.tier.pick(8_000, 150_000);
    for k in 0..n_ast {
        let q = gen::random_query(&mut rng, &qcfg);
        let mut sp = Spelling::random(&mut rng);
        match k % 6 {
            0 => sp.blanks = Blanks::All(" ".into()),
            1 => sp.blanks = Blanks::All("\t\n\r ".into()),
            2 => {
                sp.esc = EscStyle::AllUnicodeUpper;
                sp.names = NameStyle::Double;
            }
            3 => sp.esc = EscStyle::MinimalLower,
            _ => {}
        }
        corpus.push(render(&q, &mut sp));
    }
    // (iii) notable characters at every kind of position (valid and invalid alike: the
    // recognisers decide), and 3-/4-operand formulas in every context with blanks at every slot
    corpus.extend(gen::notable_char_strings());
    corpus.extend(gen::double_fault_strings());
    corpus.extend(gen::syntax_inside_strings());
    corpus.extend(gen::long_number_literal_queries());
    corpus.extend(gen::nonsingular_in_value_position());
    corpus.extend(gen::function_results_as_arguments());
    corpus.extend(gen::blanks_inside_numbers());
    for t in gen::composition_queries() {
        let ast = match analyze(&t).ast {
            Some(a) => a,
            None => return Err(format!("composition query does not parse: {}", t)),
        };
        corpus.push(t.clone());
        let mk = |f: &dyn Fn(&mut Spelling)| {
            let mut s = Spelling::canonical();
            f(&mut s);
            s
        };
        corpus.push(render(&ast, &mut mk(&|s| s.blanks = Blanks::All(" ".into()))));
        corpus.push(render(&ast, &mut mk(&|s| s.blanks = Blanks::All("\r\n\t ".into()))));
        corpus.push(render(&ast, &mut mk(&|s| { s.extra_parens = 1; s.blanks = Blanks::All(" ".into()); })));
        let slots = oracle::render::count_slots(&ast, &Spelling::canonical());
        for slot in 0..slots.min(ctx.tier.pick(80, 400)) {
            corpus.push(render(&ast, &mut mk(&|s| s.blanks = Blanks::Only { slot, text: if slot % 3 == 0 { "\n".into() } else { " ".into() } })));
        }
    }
    let n_base = corpus.len();
    // (C07 ii) single-edit mutants of the corpus
    let per = ctx.tier.pick(6, 30);
    let mut mutants = vec![];
    for s in corpus.iter() {
        for k in 0..per {
            // every third mutant carries two edits (faults that cancel each other)
            let m = gen::mutate(s, &mut rng);
            mutants.push(if k % 3 == 2 { gen::mutate(&m, &mut rng) } else { m });
        }
    }
    corpus.extend(mutants);
    let mut deep: Vec<String> = vec![];
    // deep (but valid) nestings of every shape, and long flat queries, several copies each so
    // that they are parsed concurrently with short ones
    for d in 1..=7usize {
        let mut m = String::from("match(@.a,'x')");
        let mut c = String::from("count(@.*) > 0");
        let mut v = String::from("@.a");
        let mut l = String::from("length(@.a) == 1");
        for _ in 0..d {
            m = format!("match(value(@.a[?{}]),'x')", m);
            c = format!("count(@[?{}]) > 0", c);
            v = format!("@[?{}]", v);
            l = format!("length(value(@[?{}])) == 1", l);
        }
        for q in [format!("$[?{}]", m), format!("$[?{}]", c), format!("$[?{}]", v), format!("$[?{}]", l), format!("$[?{}{}{}]", "(".repeat(d * 3), "@.a", ")".repeat(d * 3)), format!("$[?{}@.a{}]", "!(".repeat(d * 2), ")".repeat(d * 2))] {
            for _ in 0..4 {
                deep.push(q.clone());
            }
        }
    }
    for n in [50usize, 100, 200, 400, 800] {
        for q in [format!("${}", ".abc".repeat(n)), format!("${}", "['x y']".repeat(n)), format!("$[{}0]", "0,".repeat(n)), format!("$[?{}@.a]", "@.a||".repeat(n)), format!("$[?@.a == '{}']", "s".repeat(n * 4))] {
            for _ in 0..6 {
                deep.push(q.clone());
            }
        }
    }
    // long valid queries of multi-byte characters at every byte alignment
    deep.extend(gen::long_multibyte_queries());
    corpus.extend(deep);
    let n_corpus = corpus.len();
    let probe_doc = Doc::from_value(serde_json::json!({"a": [1, {"b": 2}], "b": "x"}));
    let root_docs: Vec<serde_json::Value> = vec![serde_json::json!(null), serde_json::json!(true), serde_json::json!(0), serde_json::json!("s"), serde_json::json!(""), serde_json::json!([]), serde_json::json!({}), serde_json::json!([1]), serde_json::json!({"a": 1})];
    let total = n_gen + n_flt + n_corpus;

    let acc = par_run(ctx, total, |i, acc: &mut Acc| {
        let (s, fam): (String, &str) = if i < n_gen {
            (format!("${}", nth_string(&GENERAL, i, max_len)), "exhaustive-general")
        } else if i < n_gen + n_flt {
            (format!("$[?{}]", nth_string(&FILTER, i - n_gen, max_len)), "exhaustive-filter")
        } else {
            let k = i - n_gen - n_flt;
            (corpus[k].clone(), if k < n_base { "corpus" } else { "mutant" })
        };
        let p: Parsed = analyze(&s);
        // (a) <-> (b) cross-check: a disagreement is an oracle defect, never a verdict
        if let Err(e) = rec.cross_check(&s) {
            acc.count("HARNESS_recogniser_disagreement", 1);
            if std::env::var("VERIF_DEBUG").is_ok() {
                eprintln!("{}", e);
            }
            return;
        }
        acc.count("recogniser_cross_checks_agree", 1);
        acc.evaluations += 1;
        acc.count(&format!("family_{}", fam), 1);
        let accepted = match libapi::accepts(&s) {
            Some(a) => a,
            None => {
                // a panic is C08's finding in general; for a valid query it also means that the
                // query was not accepted, which is this property; for an invalid string it is
                // neither accept nor reject
                if !reject_mode && matches!(p.class, Class::Valid) {
                    ctx.violate(&format!("valid query not accepted: parse_json_path panicked on {:?}", s.chars().take(200).collect::<String>()), json!({"kind":"accept","string": s, "expected":"accept", "family": fam}));
                } else {
                    ctx.add_inconclusive("parser panicked (reported by C08)", 1);
                }
                return;
            }
        };
        match &p.class {
            Class::Valid => {
                acc.count("class_valid", 1);
                if !reject_mode {
                    let optional = p.info.blanks > 0 || p.info.name_esc_other + p.info.name_esc_simple + p.info.lit_esc > 0 || p.info.num_frac_exp > 0 || p.info.unions > 0 || p.info.parens > 0 || p.info.funcs > 0 || p.info.name_dq > 0 || p.info.slices > 0;
                    if optional {
                        acc.nontrivial(s.as_bytes());
                        if i % 53 == 0 {
                            acc.sample(json!({"valid": s, "family": fam}));
                        }
                    }
                    for (c, n) in [(p.info.blanks > 0, "blank"), (p.info.name_esc_other + p.info.lit_esc > 0, "escape"), (p.info.lc_hex, "lower-case-hex"), (p.info.num_frac_exp > 0, "frac/exp"), (p.info.unions > 0, "union"), (p.info.parens > 0, "parenthesis"), (p.info.funcs > 0, "function"), (p.info.name_dq > 0, "double-quoted"), (p.info.name_short > 0, "shorthand"), (p.info.slices > 0, "slice"), (p.info.descendants > 0, "descendant"), (p.info.filters > 0, "filter"), (p.info.uni_ws_shorthand, "unicode-ws-in-shorthand")] {
                        if c {
                            acc.count(&format!("valid_with_{}", n), 1);
                        }
                    }
                    let mut bad: Option<String> = None;
                    if !accepted {
                        bad = Some(format!("valid query rejected by parse_json_path: {:?}", s));
                    } else if i % 4 == 0 {
                        // the public query entry point must not return Err either
                        if let libapi::LibOutcome::Err(e) = libapi::query_with_path(&s, &probe_doc.value) {
                            bad = Some(format!("valid query {:?}: query() returned Err({})", s, e.chars().take(100).collect::<String>()));
                        }
                    }
                    if let Some(m) = bad {
                        ctx.violate(&m, json!({"kind":"accept","string": s, "expected":"accept", "family": fam}));
                    } else {
                        acc.count("held", 1);
                    }
                }
            }
            Class::Invalid(r) => {
                acc.count("class_invalid", 1);
                if reject_mode {
                    acc.count(&format!("invalid_{}", r.name()), 1);
                    if fam == "mutant" || fam == "corpus" || s.chars().count() <= 5 {
                        acc.nontrivial(s.as_bytes());
                    }
                    if i % 4001 == 0 || (fam == "corpus" && i % 7 == 0) {
                        acc.sample(json!({"invalid": s, "reason": r.name(), "family": fam}));
                    }
                    // the entry points that take a query text must reject it too, whatever the
                    // document is (a scalar or empty root must not short-cut the validation)
                    let mut accepted = accepted;
                    let mut via = "parse_json_path";
                    if !accepted && (fam != "exhaustive-general" && fam != "exhaustive-filter" || i % 16 == 0) {
                        let d = &root_docs[i % root_docs.len()];
                        if !matches!(libapi::query_with_path(&s, d), libapi::LibOutcome::Err(_)) {
                            accepted = true;
                            via = "query_with_path on a scalar / empty / small root document";
                        } else if i % 3 == 0 && !matches!(libapi::query_paths(&s, d), Ok(Err(_))) {
                            accepted = true;
                            via = "query_only_path on a scalar / empty / small root document";
                        }
                    }
                    let _ = via;
                    if accepted {
                        let known = match r {
                            Reason::FnArgType | Reason::FnResultAsTest | Reason::FnArity if armed.has("fn_typing") => Some(armed.id_of("fn_typing")),
                            _ => None,
                        };
                        match known {
                            Some(id) => ctx.add_known(&id, 1),
                            None => ctx.violate(&format!("invalid string accepted ({}) by {}: {:?}", r.name(), via, s), json!({"kind":"accept","string": s, "expected":"reject", "reason": r.name(), "family": fam, "via": via})),
                        }
                    } else {
                        acc.count("held", 1);
                    }
                }
            }
            Class::OutOfScope(_) => ctx.add_skipped("U6-undefined-function-name", 1),
            Class::Unsettled(z) => ctx.add_skipped(z, 1),
        }
    });
    let dis = acc.counters.get("HARNESS_recogniser_disagreement").copied().unwrap_or(0);
    if dis > 0 {
        return Err(format!("the two recognisers disagree on {} strings (oracle defect; run with VERIF_DEBUG=1)", dis));
    }
    let mut ev = Evidence::new(if reject_mode {
        "strings: exhaustive '$'+w and '$[?'+w+']' for all w up to the stated length over a 24-/20-symbol alphabet; the named near-miss table; double faults (a surplus function argument that is itself invalid, ...), non-singular segments of 25 shapes in 13 value positions; every invalid string also through query_with_path / query_only_path on scalar, empty and small root documents; 40 notable characters (DEL, C1 controls, no-break / zero-width / line-separator characters, BOM, non-characters, surrogate neighbours) at 37 kinds of position inside and outside tokens; single-edit mutants (character/token insert, delete, replace, transpose, blank, control character) of ABNF-derived and AST-rendered sentences. Each string is classified by two independent recognisers that must agree; every Invalid one must be rejected. Non-trivial = distinct Invalid strings that are mutants/near misses or exhaustive strings of length <= 5."
    } else {
        "strings: ABNF-driven random derivations of jsonpath-query; notable characters at every kind of position; text that looks like syntax inside strings; number literals with long digit runs; 3-/4-operand formulas in 13 contexts with a blank at every single slot and everywhere; long queries of 2-/3-/4-byte characters at every byte alignment; deep and long valid queries; AST-driven renderings in all spelling dimensions (blank at every S slot, both quote styles, every escape form in both hex cases, surrogate pairs, shorthand/bracket, number formats, unions, parentheses, nested filters, functions); curated valid spellings; the exhaustive short-string families. Each string classified Valid by two independent recognisers must be accepted by parse_json_path (and query() must not return Err). Non-trivial = distinct Valid strings using at least one optional construct."
    });
    ev.set("exhaustive", json!(true));
    ev.set("exhaustive_families", json!({"general_alphabet": GENERAL.iter().collect::<String>(), "filter_alphabet": FILTER.iter().collect::<String>(), "max_w_len": max_len, "general_strings": n_gen, "filter_strings": n_flt}));
    ev.set("corpus_strings", json!(n_base));
    ev.set("mutant_strings", json!(n_corpus - n_base));
    ev.assume("RFC 9535 Appendix A transcribed twice (table + hand parser); zones U1 (blank inside singular-query brackets), U2 (number literals beyond the exact range) and U6 (undefined function names) are not judged");
    ev.min_nontrivial = 500;
    let _ = Tier::Quick;
    acc.into_evidence(&mut ev);
    Ok(ev)
}
