//! C14: in, nin, none_of, any_of, subset_of implement set membership; missing / non-array
//! arguments give false, not an error. Exhaustive over all pairs of arrays of length <= 3 over a
//! 5-element sub-universe; definition + complement laws (oracle-free) + H4 hook events.

use crate::ctx::{par_run, Acc, Ctx, Evidence};
use crate::findings::{arm, Armed};
use crate::hookutil::{operand_brief, operand_value};
use crate::judge::{self, judge_query, Verdict, NODES, ORDER};
use crate::libapi::{self, Doc, LibOutcome};
use crate::trace::with_events;
use jsonpath_rust::verif::{Event, Json, Operand};
use oracle::gen;
use oracle::json::{json_eq, J};
use oracle::parse::analyze;
use oracle::rng::Rng;
use serde_json::json;

fn sub_universe() -> Vec<J> {
    vec![J::int(1), J::str("a"), J::Null, J::Arr(vec![J::int(1)]), J::Obj(vec![("k".into(), J::int(1))])]
}
fn universe() -> Vec<J> {
    let mut u = sub_universe();
    u.extend(vec![J::int(2), J::str("1"), J::Bool(true), J::Arr(vec![]), J::Bool(false), J::str(""), J::Obj(vec![]), J::float(1.5), J::Arr(vec![J::Arr(vec![J::int(1)])])]);
    // integers at and above i64::MAX (documents can hold them; equality must stay exact)
    // elements nested deeper than a parser would produce
    {
        let mut a = J::str("deep");
        let mut o = J::int(7);
        for _ in 0..129 {
            a = J::Arr(vec![a]);
        }
        for _ in 0..200 {
            o = J::Obj(vec![("k".into(), o)]);
        }
        u.push(a);
        u.push(o);
    }
    u.extend(vec![J::int(i64::MAX), J::uint(9223372036854775808), J::uint(18446744073709551614), J::uint(18446744073709551615), J::Arr(vec![J::uint(18446744073709551615)])]);
    u
}
fn arrays() -> Vec<Vec<J>> {
    let u = sub_universe();
    let mut out: Vec<Vec<J>> = vec![vec![]];
    let mut layer: Vec<Vec<J>> = vec![vec![]];
    for _ in 0..3 {
        let mut next = vec![];
        for a in &layer {
            for e in &u {
                let mut b = a.clone();
                b.push(e.clone());
                next.push(b);
            }
        }
        out.extend(next.iter().cloned());
        layer = next;
    }
    out
}

const FNS: [&str; 5] = ["in", "nin", "none_of", "any_of", "subset_of"];

fn doc_for(b: &J, arrs: &[Vec<J>]) -> J {
    let l: Vec<J> = arrs.iter().map(|a| J::Arr(a.clone())).collect();
    let lo: Vec<J> = arrs.iter().map(|a| J::Obj(vec![("x".into(), J::Arr(a.clone()))])).collect();
    let x: Vec<J> = universe();
    J::Obj(vec![
        ("B".into(), b.clone()),
        ("w".into(), J::Obj(vec![("B".into(), b.clone())])),
        ("L".into(), J::Arr(l)),
        ("LO".into(), J::Arr(lo)),
        ("X".into(), J::Arr(x)),
        // float-only arrays (no int/float twins: zone U5 is not entered)
        ("F".into(), J::Arr(vec![J::Arr(vec![J::float(1.5), J::float(2.0)]), J::Arr(vec![J::float(100.0)]), J::Arr(vec![J::float(2.5)]), J::Arr(vec![]), J::Arr(vec![J::float(2.0), J::float(2.0), J::float(100.0)])])),
        ("num".into(), J::int(1)),
        ("str".into(), J::str("a")),
        ("obj".into(), J::Obj(vec![("k".into(), J::int(1))])),
        ("nul".into(), J::Null),
    ])
}

fn templates() -> Vec<String> {
    let mut t = vec![];
    for f in FNS {
        // first argument ranges over all arrays / all values, second is $.B
        t.push(format!("$.L[?{}(@, $.B)]", f));
        t.push(format!("$.L[?!{}(@, $.B)]", f));
        t.push(format!("$.LO[?{}(@.x, $.w.B)]", f));
        t.push(format!("$.X[?{}(@, $.B)]", f));
        t.push(format!("$.X[?!{}(@, $.B)]", f));
        // swapped: first argument fixed, second ranges
        t.push(format!("$.L[?{}($.B, @)]", f));
        t.push(format!("$.LO[?{}($.w.B, @['x'])]", f));
        // ill-typed / missing arguments: false, not an error
        for (a, b) in [("@", "$.num"), ("@", "$.str"), ("@", "$.obj"), ("@", "$.nul"), ("@", "$.missing"), ("$.missing", "@"), ("$.missing", "$.B"), ("@.nope", "$.B"), ("$.num", "@"), ("$.nul", "@"), ("@", "@.nope")] {
            t.push(format!("$.L[?{}({}, {})]", f, a, b));
            t.push(format!("$.L[?!{}({}, {})]", f, a, b));
        }
        // literals as first argument, inside && / ||
        t.push(format!("$.L[?{}(1, @)]", f));
        t.push(format!("$.L[?{}('a', @)]", f));
        t.push(format!("$.L[?{}(null, @)]", f));
        t.push(format!("$.F[?{}(2.0, @)]", f));
        t.push(format!("$.F[?{}(1e2, @)]", f));
        t.push(format!("$.F[?{}(1.5, @)]", f));
        t.push(format!("$.F[?!{}(2.0, @)]", f));
        t.push(format!("$.L[?{}(@, $.B) && length(@) > 1]", f));
        t.push(format!("$.L[?{}(@, $.B) || length(@) == 0]", f));
        t.push(format!("$.X[?{}(@, $.B) || @ == 2]", f));
    }
    t
}

pub fn run(ctx: &Ctx) -> Result<Evidence, String> {
    let armed: Armed = arm(ctx, &|_| None)?;
    let arrs = arrays();
    let mut bs: Vec<J> = arrs.iter().map(|a| J::Arr(a.clone())).collect();
    // a few richer second arguments (nested values) and non-arrays
    let mut rng = Rng::stream(ctx.seed, 14);
    let cfg = gen::DocCfg::default();
    for _ in 0..ctx.tier.pick(40, 6000) {
        let n = rng.below(5) as usize;
        bs.push(J::Arr((0..n).map(|_| gen::random_doc(&mut rng, &cfg)).collect()));
    }
    // second exhaustive family: arrays of length <= 3 over small integers around the 64-bit
    // word boundary (bit-set style fast paths)
    let ints = [0i64, 1, 63, 64, 65];
    let mut int_arrs: Vec<Vec<J>> = vec![vec![]];
    let mut layer: Vec<Vec<J>> = vec![vec![]];
    for _ in 0..3 {
        let mut next = vec![];
        for a in &layer {
            for e in ints {
                let mut b = a.clone();
                b.push(J::int(e));
                next.push(b);
            }
        }
        int_arrs.extend(next.iter().cloned());
        layer = next;
    }
    let first_int_b = bs.len();
    bs.extend(int_arrs.iter().map(|a| J::Arr(a.clone())));
    // family 2b: the same over integers at and above i64::MAX (neighbours that share one f64)
    let mut big_arrs: Vec<Vec<J>> = vec![vec![]];
    {
        let bigs = [J::int(i64::MAX), J::uint(9223372036854775808), J::uint(18446744073709551614), J::uint(18446744073709551615)];
        let mut layer: Vec<Vec<J>> = vec![vec![]];
        for _ in 0..3 {
            let mut next = vec![];
            for a in &layer {
                for e in &bigs {
                    let mut b = a.clone();
                    b.push(e.clone());
                    next.push(b);
                }
            }
            big_arrs.extend(next.iter().cloned());
            layer = next;
        }
        // and nested in elements
        big_arrs.push(vec![J::Arr(vec![J::uint(18446744073709551614)]), J::Obj(vec![("k".into(), J::uint(9223372036854775808))])]);
        big_arrs.push(vec![J::Arr(vec![J::uint(18446744073709551615)]), J::Obj(vec![("k".into(), J::int(i64::MAX))])]);
    }
    let first_big_b = bs.len();
    bs.extend(big_arrs.iter().map(|a| J::Arr(a.clone())));
    // third family: arrays of 4..100 elements (hashed / sorted / chunked look-ups) whose only
    // common element, if any, is a pair of equal floats with different spellings (-0.0 / 0.0),
    // at the top level or nested in an array / object element
    let twin = |kind: usize, neg: bool| -> Option<J> {
        let z = J::float(if neg { -0.0 } else { 0.0 });
        match kind {
            0 => None,
            1 => Some(z),
            2 => Some(J::Arr(vec![J::str("s1"), z])),
            _ => Some(J::Obj(vec![("k".into(), z), ("m".into(), J::float(2.5))])),
        }
    };
    let mut large_a: Vec<Vec<J>> = vec![];
    // sorted integer lists of 8..33 elements (merge-style / binary-search look-ups): ascending
    // and descending, with values repeated more often in A than in B, with one element missing
    let fib: Vec<i64> = vec![1, 2, 3, 5, 8, 13, 21, 34, 55, 89, 144, 233, 377, 610, 987, 1597, 2584, 4181, 6765, 10946, 17711, 28657, 46368, 75025, 121393, 196418, 317811, 514229, 832040, 1346269, 2178309, 3524578, 5702887];
    let mut sorted_b: Vec<Vec<J>> = vec![];
    for &n in &[8usize, 9, 12, 16, 33] {
        let base: Vec<i64> = fib[..n].to_vec();
        // A: every element of B's prefix, some twice / three times
        let mut a1: Vec<i64> = vec![];
        for (i, v) in base.iter().enumerate().take(n.min(12)) {
            a1.push(*v);
            if i % 3 == 0 {
                a1.push(*v);
            }
            if i % 5 == 4 {
                a1.push(*v);
                a1.push(*v);
            }
        }
        let mut a2 = a1.clone();
        a2.push(base[n - 1] + 1); // one element that B lacks, still ascending
        let a3: Vec<i64> = base.iter().rev().cloned().collect(); // descending
        let mut a4 = base.clone();
        a4.dedup();
        for a in [a1, a2, a3, a4, base[..8].to_vec()] {
            large_a.push(a.into_iter().map(J::int).collect());
        }
        sorted_b.push(base.iter().cloned().map(J::int).collect());
        let mut b2: Vec<i64> = base.clone();
        b2.insert(1, base[0]); // B itself with one repeat
        sorted_b.push(b2.into_iter().map(J::int).collect());
        sorted_b.push(base.iter().rev().cloned().map(J::int).collect());
    }
    for &la in &[4usize, 8, 12, 20, 33] {
        for kind in 0..4 {
            for neg in [true, false] {
                let mut a: Vec<J> = (0..la - 1).map(|i| J::str(&format!("a{}", i))).collect();
                if let Some(t) = twin(kind, neg) {
                    a.insert(la / 2, t);
                } else {
                    a.push(J::float(7.25));
                }
                large_a.push(a);
            }
        }
    }
    // lists of short strings that differ only by trailing NULs / padding (packed-key look-ups)
    for &lb in &[9usize, 16, 40] {
        for (xa, xb) in [("eu", "eu\u{0}"), ("", "\u{0}"), ("a", "a\u{0}\u{0}"), ("abcdefg", "abcdefg\u{0}"), ("abcdefgh", "abcdefgh"), ("ab", "ab "), ("\u{0}x", "x")] {
            for swap in [false, true] {
                let (ea, eb) = if swap { (xb, xa) } else { (xa, xb) };
                let mut a: Vec<J> = (0..5).map(|i| J::str(&format!("t{}", i))).collect();
                a.insert(2, J::str(ea));
                large_a.push(a);
                let mut b: Vec<J> = (0..lb - 1).map(|i| J::str(&format!("u{}", i))).collect();
                b.insert(lb / 2, J::str(eb));
                sorted_b.push(b);
            }
        }
    }
    // ascending lists of 16..40 strings with a stray element in the last / first / middle slot
    // (a name appended to a sorted allow-list, a number among strings), A holding that element
    for &lb in &[16usize, 17, 20, 40] {
        for (slot, stray) in [(lb - 1, J::str("admin")), (lb - 1, J::int(7)), (0, J::str("zzz")), (lb / 2, J::str("aaa")), (lb - 1, J::str("role-05"))] {
            let mut b: Vec<J> = (0..lb - 1).map(|i| J::str(&format!("role-{:02}", i))).collect();
            b.insert(slot.min(b.len()), stray.clone());
            sorted_b.push(b);
            large_a.push(vec![stray.clone(), J::str("q1"), J::str("q2"), J::str("q3")]);
            large_a.push(vec![J::str("role-03"), stray.clone(), J::str("role-01"), J::str("role-00")]);
        }
    }
    // lists whose sizes multiply to 4096 and more
    for &n in &[64usize, 80, 100] {
        let a: Vec<J> = (0..n).map(|i| J::str(&format!("a{:03}", i))).collect();
        let mut a_hit = a.clone();
        a_hit[n / 2] = J::str("b007");
        large_a.push(a);
        large_a.push(a_hit);
        sorted_b.push((0..n).map(|i| J::str(&format!("b{:03}", i))).collect());
        sorted_b.push((0..n).map(|i| if i % 3 == 0 { J::int(i as i64) } else { J::str(&format!("b{:03}", i)) }).collect());
    }
    // elements nested deeper than any parser limit, equal on both sides
    for &depth in &[127usize, 128, 129, 200, 300] {
        let nest = |leaf: J, arr: bool| {
            let mut v = leaf;
            for _ in 0..depth {
                v = if arr { J::Arr(vec![v]) } else { J::Obj(vec![("k".into(), v)]) };
            }
            v
        };
        large_a.push(vec![nest(J::str("deep"), true), J::str("z1"), J::str("z2"), J::str("z3")]);
        large_a.push(vec![nest(J::int(7), false), J::str("z1"), J::str("z2"), J::str("z3")]);
        sorted_b.push(vec![J::str("y1"), nest(J::str("deep"), true), J::str("y2")]);
        sorted_b.push(vec![J::str("y1"), nest(J::int(7), false), nest(J::int(8), false)]);
        sorted_b.push(vec![J::str("y1"), nest(J::str("deeq"), true)]);
    }
    let first_large_b = bs.len();
    for &lb in &[16usize, 20, 32, 40, 64, 100] {
        for kind in 0..4 {
            for neg in [true, false] {
                for pos in [0usize, lb / 2, lb - 1] {
                    let mut b: Vec<J> = (0..lb - 1).map(|i| if i % 7 == 3 { J::float(i as f64 + 0.5) } else { J::str(&format!("b{}", i)) }).collect();
                    b.insert(pos, twin(kind, neg).unwrap_or(J::float(9.75)));
                    bs.push(J::Arr(b));
                }
            }
        }
    }
    for b in sorted_b {
        bs.push(J::Arr(b));
    }
    let n_large_b = bs.len() - first_large_b;
    let n_array_bs = bs.len();
    bs.extend(vec![J::int(1), J::str("a"), J::Null, J::Obj(vec![("k".into(), J::int(1))]), J::Bool(true)]);
    let docs: Vec<Doc> = bs.iter().enumerate().map(|(i, b)| Doc::new(&doc_for(b, if i >= first_big_b && i < first_big_b + big_arrs.len() { &big_arrs } else if i >= first_large_b && i < first_large_b + n_large_b { &large_a } else if i >= first_int_b && i < first_int_b + int_arrs.len() { &int_arrs } else { &arrs }))).collect();
    let tm = templates();
    let total = docs.len() * tm.len();

    let acc = par_run(ctx, total, |i, acc: &mut Acc| {
        let doc = &docs[i / tm.len()];
        let b_is_array = (i / tm.len()) < n_array_bs;
        let text = &tm[i % tm.len()];
        let parsed = analyze(text);
        if parsed.ast.is_none() {
            acc.count("HARNESS_unparsable", 1);
            return;
        }
        acc.evaluations += 1;
        let j = judge_query(text, &parsed, doc, NODES | ORDER, &armed);
        let mut verdict = j.verdict.clone();
        let lib_addrs: Vec<usize> = match &j.lib {
            LibOutcome::Ok(ns) => ns.iter().map(|x| x.0).collect(),
            _ => vec![],
        };
        // complement laws on observed results (oracle-free): only for the plain sweep templates
        if verdict == Verdict::Held && b_is_array {
            let all = |path: &str| -> Vec<usize> {
                match libapi::query_with_path(path, &doc.value) {
                    LibOutcome::Ok(ns) => ns.iter().map(|x| x.0).collect(),
                    _ => vec![],
                }
            };
            let complement_of = |other: &str, carrier: &str| -> Option<bool> {
                let o = all(other);
                let c = all(carrier);
                let mut union: Vec<usize> = o.iter().chain(lib_addrs.iter()).copied().collect();
                union.sort();
                let mut cs = c.clone();
                cs.sort();
                Some(union == cs && o.iter().all(|a| !lib_addrs.contains(a)))
            };
            let law = if text == "$.X[?nin(@, $.B)]" {
                Some(("nin = not in", complement_of("$.X[?in(@, $.B)]", "$.X[*]")))
            } else if text == "$.L[?none_of(@, $.B)]" {
                Some(("none_of = not any_of", complement_of("$.L[?any_of(@, $.B)]", "$.L[*]")))
            } else if text == "$.L[?subset_of(@, $.B)]" {
                // subset_of(A,B) and A != [] implies any_of(A,B); [] is a subset of anything
                let any = all("$.L[?any_of(@, $.B)]");
                let empty = all("$.L[?length(@) == 0]");
                let ok = lib_addrs.iter().all(|a| any.contains(a) || empty.contains(a)) && empty.iter().all(|e| lib_addrs.contains(e));
                Some(("subset_of implies any_of; [] subset of anything", Some(ok)))
            } else {
                None
            };
            if let Some((name, Some(ok))) = law {
                acc.count("law_instances", 1);
                if !ok {
                    verdict = Verdict::Violated(format!("law violated on observed results: {} (second argument {})", name, doc.j.child(&oracle::json::Step::Key("B".into())).map(|b| b.to_text()).unwrap_or_default()));
                }
            }
        }
        // H4 events
        // (the hook reports an integer above i64::MAX as the float the engine's accessors give:
        // the beyond-i64 family is judged at the boundary only; the X list of every document
        // holds such integers too, so events that carry one are skipped)
        let in_big_family = { let di = i / tm.len(); di >= first_big_b && di < first_big_b + big_arrs.len() };
        if verdict == Verdict::Held && i % 3 == 0 && !in_big_family {
            let (_, events) = with_events(|| libapi::query_with_path(text, &doc.value));
            for e in events {
                if let Event::Func { name, args, result } = e {
                    if !FNS.contains(&name.as_str()) {
                        continue;
                    }
                    acc.count("h4_function_events", 1);
                    if let Err(m) = check_ext(&name, &args, &result) {
                        verdict = Verdict::Violated(format!("H4: {}", m));
                        break;
                    }
                }
            }
        }
        for (n, a, r) in &j.flags.fn_calls {
            if FNS.contains(&n.as_str()) {
                acc.mark("function_x_argkinds_x_result", format!("{}({}) -> {}", n, a, r));
            }
        }
        if !j.ref_locs.is_empty() && j.ref_locs.len() < 156 {
            acc.nontrivial(format!("{}\u{0}{}", text, i / tm.len()).as_bytes());
            acc.sample(json!({"query": text, "B": doc.j.child(&oracle::json::Step::Key("B".into())).map(|b| b.to_text()), "kept": j.ref_locs.len()}));
        }
        match verdict {
            Verdict::Held => acc.count("held", 1),
            Verdict::Known(id) => ctx.add_known(&id, 1),
            Verdict::Skipped(z) => ctx.add_skipped(z, 1),
            Verdict::Inconclusive(w) => ctx.add_inconclusive(&w, 1),
            Verdict::Violated(m) => ctx.violate(&m, judge::replay_json("query", text, doc, &j)),
        }
    });
    // histories: a long list searched, changed in place through reference_mut (same buffer,
    // same length), searched again; and same-shaped documents dropped and re-created
    let mut acc = acc;
    {
        use jsonpath_rust::query::queryable::Queryable;
        let mut r = Rng::stream(ctx.seed, 1414);
        let rounds = ctx.tier.pick(300, 5000);
        for round in 0..rounds {
            let n = 32 + r.below(40) as usize;
            let mut list: Vec<J> = (0..n).map(|i| if i % 4 == 0 { J::str(&format!("s{}", i)) } else { J::int(i as i64 * 3) }).collect();
            let mut cands: Vec<J> = (0..12).map(|i| J::int(i * 3)).collect();
            cands.extend(vec![J::int(1000), J::int(1001), J::str("new"), J::str("s4"), J::Arr(vec![J::int(1000), J::int(3)]), J::Arr(vec![J::int(3), J::int(6)]), J::Arr(vec![J::int(1001)])]);
            let mk = |list: &Vec<J>| J::Obj(vec![("list".into(), J::Arr(list.clone())), ("c".into(), J::Arr(cands.clone()))]);
            let mut real = mk(&list).to_value();
            for step in 0..4 {
                let model = mk(&list);
                for f in FNS {
                    let q = if f == "in" || f == "nin" { format!("$.c[?{}(@, $.list)]", f) } else { format!("$.c[?{}(@, $.list)]", f) };
                    let p = analyze(&q);
                    let want: Vec<String> = match oracle::eval::eval_locs(p.ast.as_ref().unwrap(), &J::from_value(&model.to_value()), oracle::eval::Dev::default()) {
                        Ok((l, fl, _)) if !fl.u5 => l.iter().map(|x| oracle::npath::render(x)).collect(),
                        _ => continue,
                    };
                    let got: Vec<String> = match libapi::query_with_path(&q, &real) {
                        LibOutcome::Ok(ns) => ns.into_iter().map(|x| x.1).collect(),
                        o => vec![o.brief()],
                    };
                    acc.evaluations += 1;
                    acc.count("history_evaluations", 1);
                    if got != want {
                        ctx.violate(
                            &format!("{} after {} in-place changes of a {}-element list (round {}): expected {:?} observed {:?}", q, step, n, round, want, got),
                            json!({"kind":"history","query": q, "document_now": real, "in_place_changes": step}),
                        );
                    }
                }
                // change one element in place: a value that was not in the list before
                let k = r.below(n as u64) as usize;
                let newv = [J::int(1000), J::int(1001), J::str("new"), J::int(1000 + step)][r.below(4) as usize].clone();
                list[k] = newv.clone();
                if let Some(slot) = real.reference_mut(format!("$['list'][{}]", k)) {
                    *slot = newv.to_value();
                } else {
                    ctx.violate("reference_mut on an existing list element returned None", json!({"kind":"history","path": format!("$['list'][{}]", k)}));
                }
            }
            drop(real);
        }
        acc.nontrivial(b"in-place-mutation-histories");
    }
    if acc.counters.get("HARNESS_unparsable").copied().unwrap_or(0) > 0 {
        return Err("a C14 template does not parse in oracle (b)".into());
    }
    // the same set questions asked by all threads at the same time, alternating between two
    // documents with opposite answers (whatever is remembered between calls is then read and
    // written by all of them at once)
    let mut acc = acc;
    {
        let threads = ctx.threads.clamp(2, 16);
        let rounds = ctx.tier.pick(600, 20_000);
        let mk = |hit: bool| -> serde_json::Value {
            let a: Vec<String> = (0..80).map(|i| if hit && i == 41 { "b017".to_string() } else { format!("a{:03}", i) }).collect();
            let b: Vec<String> = (0..80).map(|i| format!("b{:03}", i)).collect();
            json!({"A": a, "B": b, "L": [a]})
        };
        let docs = [mk(true), mk(false)];
        let qs = ["$.L[?any_of(@, $.B)]", "$.L[?none_of(@, $.B)]", "$.L[?subset_of(@, $.B)]", "$[?any_of($.A, $.B)]"];
        let expected: Vec<Vec<usize>> = docs.iter().map(|d| qs.iter().map(|q| match libapi::query_with_path(q, d) { LibOutcome::Ok(ns) => ns.len(), _ => usize::MAX }).collect()).collect();
        let barrier = std::sync::Barrier::new(threads);
        let done = std::sync::atomic::AtomicU64::new(0);
        std::thread::scope(|s| {
            for t in 0..threads {
                let (docs, qs, expected, barrier, done) = (&docs, &qs, &expected, &barrier, &done);
                s.spawn(move || {
                    barrier.wait();
                    for round in 0..rounds {
                        let di = (round / 3 + t) % 2;
                        let qi = round % qs.len();
                        let got = match libapi::query_with_path(qs[qi], &docs[di]) { LibOutcome::Ok(ns) => ns.len(), _ => usize::MAX };
                        if got != expected[di][qi] {
                            ctx.violate(
                                &format!("with {} threads asking the same set questions at the same time, {} on the document {} a common element selects {} nodes instead of {}", threads, qs[qi], if di == 0 { "with" } else { "without" }, got, expected[di][qi]),
                                json!({"kind":"schedule","query": qs[qi], "threads": threads, "document": docs[di]}),
                            );
                            return;
                        }
                        done.fetch_add(1, std::sync::atomic::Ordering::Relaxed);
                    }
                });
            }
        });
        acc.count("concurrent_same_question_evaluations", done.load(std::sync::atomic::Ordering::Relaxed));
    }
    let mut ev = Evidence::new("cases = (template, second argument): for each of the 156 arrays of length <= 3 over the sub-universe {1,\"a\",null,[1],{\"k\":1}} (plus random nested arrays and non-arrays) as $.B, templates sweep the first argument over all 156 arrays (as @, @.x) and over a 14-element value universe (for in/nin), for all five functions, both polarities, swapped positions, literals, missing nodes and non-array arguments, inside && and ||. So all 156^2 ordered array pairs x 5 functions are evaluated. Further families: arrays over {0,1,63,64,65}; arrays over {i64::MAX, 2^63, 2^64-2, 2^64-1} (neighbours sharing one f64); arrays of 4..100 elements whose only common element is a -0.0 / 0.0 pair at the top level or nested; in-place mutation histories. Non-trivial = distinct (template, B) whose expected result keeps some but not all candidates.");
    ev.set("exhaustive", json!(true));
    ev.set("array_pairs", json!(arrs.len() * arrs.len()));
    ev.set("second_arguments", json!(docs.len()));
    ev.assume("elements compare by RFC 9535 equality; numerically equal int/float twins as elements are zone U5 (not generated)");
    ev.min_nontrivial = 300;
    acc.into_evidence(&mut ev);
    Ok(ev)
}

fn check_ext(name: &str, args: &[Operand], result: &Operand) -> Result<(), String> {
    let show = || format!("{}({}) -> {}", name, args.iter().map(operand_brief).collect::<Vec<_>>().join(", "), operand_brief(result));
    let vals: Vec<Option<J>> = args.iter().map(|a| operand_value(a).unwrap_or(None)).collect();
    let got = match result {
        Operand::Value(Json::Bool(b)) => *b,
        // the extension hook answers null for ill-typed arguments, which filters read as false
        Operand::Value(Json::Null) | Operand::Nothing => false,
        _ => return Err(format!("unexpected result kind: {}", show())),
    };
    let member = |x: &J, l: &Vec<J>| l.iter().any(|e| json_eq(e, x));
    let want = match (name, vals.as_slice()) {
        ("in", [Some(x), Some(J::Arr(l))]) => member(x, l),
        ("nin", [Some(x), Some(J::Arr(l))]) => !member(x, l),
        ("any_of", [Some(J::Arr(a)), Some(J::Arr(b))]) => a.iter().any(|x| member(x, b)),
        ("none_of", [Some(J::Arr(a)), Some(J::Arr(b))]) => !a.iter().any(|x| member(x, b)),
        ("subset_of", [Some(J::Arr(a)), Some(J::Arr(b))]) => a.iter().all(|x| member(x, b)),
        _ => false,
    };
    if got != want {
        return Err(format!("expected {}: {}", want, show()));
    }
    Ok(())
}
