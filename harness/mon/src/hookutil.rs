//! Helpers over hook events: plain-data conversion into the oracle's JSON model.

use jsonpath_rust::verif::{Json, Operand};
use oracle::json::{J, N};

pub fn to_j(v: &Json) -> J {
    match v {
        Json::Null => J::Null,
        Json::Bool(b) => J::Bool(*b),
        Json::Int(i) => J::Num(N::Int(*i)),
        Json::Float(f) => J::Num(N::Float(*f)),
        Json::Str(s) => J::Str(s.clone()),
        Json::Arr(a) => J::Arr(a.iter().map(to_j).collect()),
        Json::Obj(o) => J::Obj(o.iter().map(|(k, v)| (k.clone(), to_j(v))).collect()),
        Json::Opaque(s) => J::Str(format!("<opaque {}>", s)),
    }
}

/// the value an operand denotes for a comparison / ValueType parameter: Some(value) or None
/// (= Nothing). A multi-node list is not a value: Err.
pub fn operand_value(o: &Operand) -> Result<Option<J>, usize> {
    match o {
        Operand::Nothing => Ok(None),
        Operand::Value(v) => Ok(Some(to_j(v))),
        Operand::Node(_, v) => Ok(Some(to_j(v))),
        Operand::Nodes(ns) => match ns.len() {
            0 => Ok(None),
            1 => Ok(Some(to_j(&ns[0].1))),
            n => Err(n),
        },
    }
}

pub fn operand_count(o: &Operand) -> usize {
    match o {
        Operand::Nothing => 0,
        Operand::Value(_) | Operand::Node(..) => 1,
        Operand::Nodes(ns) => ns.len(),
    }
}

pub fn operand_brief(o: &Operand) -> String {
    match o {
        Operand::Nothing => "Nothing".into(),
        Operand::Value(v) => format!("value {}", to_j(v).to_text()),
        Operand::Node(_, v) => format!("node {}", to_j(v).to_text()),
        Operand::Nodes(ns) => format!("{} nodes", ns.len()),
    }
}
