//! C12: the entry points agree, and evaluation is a pure function of (query, document): the same
//! on every repetition, after any history, from many threads at once; the document is unchanged.
//! All oracles are oracle-free relations between executions; the cold-state reference of every
//! (query, document) pair is computed by a *fresh process per pair* (isolated worker), which an
//! in-process cache cannot contaminate.

use crate::ctx::{Acc, Ctx, Evidence, Tier};
use crate::libapi::{self, Doc, LibOutcome};
use oracle::parse::analyze;
use crate::worker::{exe_for, run_isolated, CaseSet, Isolation, RESULTS};
use jsonpath_rust::parser::model::JpQuery;
use jsonpath_rust::query::queryable::Queryable;
use oracle::gen;
use oracle::json::J;
use oracle::rng::{fnv, Rng};
use serde_json::{json, Value};
use std::collections::{HashMap, HashSet};
use std::sync::atomic::{AtomicU64, Ordering};
use std::sync::{Arc, Barrier, Mutex};

pub struct Pairs {
    /// (query text, document text, tag)
    pub items: Vec<(String, String, &'static str)>,
}

fn deep_doc(depth: usize) -> J {
    let mut d = J::Obj(vec![("leaf".into(), J::int(1)), ("tag".into(), J::str("t"))]);
    for i in 0..depth {
        d = if i % 2 == 0 { J::Obj(vec![("x".into(), d), ("tag".into(), J::int(i as i64))]) } else { J::Arr(vec![d]) };
    }
    d
}

impl Pairs {
    pub fn new(tier: Tier, seed: u64) -> Pairs {
        let mut items: Vec<(String, String, &'static str)> = vec![];
        let strs = r#"{"s":["ab","xabx","a","b","abc","x","","a b","ab c"],"p":"ab","k":1,"x y":{"a":1},"xy":{"a":2},"a":[1,2,3,{"b":1}],"first name":"A","firstname":"B"}"#;
        let strs2 = r#"{"s":["ab","xabx"],"p":"a","k":2,"x y":7,"xy":8,"a":[3,2,1],"first name":"C","firstname":"D"}"#;
        let quotes = r#"{"it's a b":1,"it's ab":2,"say \"a b\"":3,"say \"ab\"":4,"0":"zero","1":"one","rows":[["a0","a1"],{"0":"b0","1":"b1"}],"list":[{"t":"it's a b"},{"t":"it's ab"}]}"#;
        let arr = r#"[{"a":1,"b":"x"},{"a":2,"b":"ab"},{"a":[1,2],"b":"xabx"},[1,2,3],"ab"]"#;
        // every plausible cache key collision
        let queries = [
            // same pattern under match and search, in both orders
            "$.s[?match(@,'ab')]", "$.s[?search(@,'ab')]", "$.s[?search(@,'a')]", "$.s[?match(@,'a')]", "$.s[?match(@,$.p)]", "$.s[?search(@,$.p)]", "$.s[?match(@,'a.*')]", "$.s[?search(@,'a.*')]", "$.s[?match(@,'a|b')]",
            "$.s[?search(@,'a|b')]", "$.s[?match(@,'[')]", "$.s[?search(@,'[')]", "$[?match(@.b,'ab')]", "$[?search(@.b,'ab')]", "$.s[?match(@,'b')]", "$.s[?search(@,'b')]",
            // queries differing only in blanks, quotes or a trailing selector
            "$['x y']", "$['xy']", "$[ 'xy' ]", "$[\"xy\"]", "$.xy", "$['x y'].a", "$['xy'].a", "$['first name']", "$['firstname']", "$.firstname", "$.s[?@ == 'a b']", "$.s[?@ == 'ab']", "$.s[?@=='ab']", "$.s[?@ == 'ab c']", "$.s[?@ == 'abc']",
            "$.a[-3,-2,-1,0,1,2]", "$.a[0,1,2,3,4,5]", "$.a[-6,-5,-4,-3,-2,-1]", "$..[-2,-1,0,1,2,3]", "$.a", "$.a[0]", "$.a[-1]", "$.a[*]", "$ .a", "$.a [0]", "$.A", "$.a[0,0]", "$.a[1:]", "$.a[::-1]", "$..a", "$..b", "$..*", "$[*]", "$", "$.k", "$[?@.a]", "$[?@.a == 1]", "$[?@.a == 2]", "$[?@.a > $.k]", "$[?count(@.*) > 1]",
            "$[?length(@) > 2]", "$[?length(@) > 1]", "$.s[?length(@) == 2]", "$.s[?length(@) == 3]", "$..[?@.b]", "$.a[?@ > 1]", "$.a[?@ > 2]", "$[?@.b == 'x']", "$[?@.b == 'ab']", "$.p", "$..x", "$..leaf", "$..tag", "$..[0]",
            // literals that contain the other quote character followed by blanks; numeric member
            // names vs indices (entry points that take different routes)
            "$[?@.t == \"it's a b\"]", "$[?@.t == \"it's ab\"]", "$[\"it's a b\"]", "$[\"it's ab\"]", "$..['say \"a b\"']", "$..['say \"ab\"']", "$[1]", "$['1']", "$[0]", "$['0']", "$.rows[1][1]", "$.rows[0]['1']", "$.rows[1]['1']", "$.rows[0][1]",
            // failing parses interleaved with valid ones (leaks on the error path)
            "$[?@[?@[?@[?@[?count(1)==1]]]]]", "$[?@.a && (@.b || (@.c && (@.d || match(@.e,'x')==true)))]", "$[?@[?@[?@[?@[?@[?@[?@[?@[9007199254740992]==1]]]]]]]]", "$[?(((((((length(@.a,1)==1)))))))]", "$[?@[?@[?length(@.*)==1]]]", "$[?!(!(!(!(value(1)==1))))]",
            "$.a ", "$[", "$[?@.a ==]", "$[?match(@.a,'b')==true]", "$[9007199254740992]", "$[?length(@.a,1)==1]", "$['a\tb']", "$[?(@.a", "$[?@[?@[?@.a ==]]]", "$[?@.a && (@.b || ]", "$[?count(1)==1]", "$[?@.a == 01]",
        ];
        let mut docs: Vec<String> = vec![strs.to_string(), strs2.to_string(), quotes.to_string(), arr.to_string(), "[]".into(), "3".into(), r#"{"a":{"a":{"a":1}}}"#.into()];
        // an equal-valued document that will live at a different address
        docs.push(strs.to_string());
        docs.push(deep_doc(100).to_text());
        docs.push(deep_doc(60).to_text());
        let mut rng = Rng::stream(seed, 12);
        let cfg = gen::DocCfg::default();
        for _ in 0..tier.pick(3, 20) {
            docs.push(gen::random_doc(&mut rng, &cfg).to_text());
        }
        for (di, d) in docs.iter().enumerate() {
            for q in queries.iter() {
                // every query on the first three documents, a sample on the others
                if di < 4 || di == 8 || rng.chance(1, tier.pick(6, 2)) {
                    items.push((q.to_string(), d.clone(), "collision-set"));
                }
            }
        }
        // random queries
        let qcfg = gen::QueryCfg::default();
        for _ in 0..tier.pick(60, 1500) {
            let q = gen::random_query(&mut rng, &qcfg);
            let t = oracle::render::render(&q, &mut oracle::render::Spelling::canonical());
            items.push((t, docs[rng.below(docs.len() as u64) as usize].clone(), "random"));
        }
        Pairs { items }
    }
}

/// portable signature of one evaluation: paths and values, or the error
pub fn signature(q: &str, v: &Value) -> Value {
    match libapi::query_with_path(q, v) {
        LibOutcome::Ok(ns) => json!({"ok": ns.iter().map(|(a, p)| {
            // SAFETY of the cast is not needed: look the value up through the address map instead
            let _ = a;
            p.clone()
        }).collect::<Vec<_>>(), "values": values_of(q, v)}),
        LibOutcome::Err(e) => json!({"err": e}),
        LibOutcome::Panic(p) => json!({"panic": p}),
    }
}

fn values_of(q: &str, v: &Value) -> Value {
    use jsonpath_rust::JsonPath;
    match std::panic::catch_unwind(std::panic::AssertUnwindSafe(|| v.query(q))) {
        Ok(Ok(vals)) => json!(fnv(serde_json::to_string(&vals).unwrap_or_default().as_bytes())),
        _ => Value::Null,
    }
}

impl CaseSet for Pairs {
    fn len(&self) -> usize {
        self.items.len()
    }
    fn run(&self, _idx: usize, acc: &mut Acc) -> Vec<(String, Value)> {
        acc.evaluations += 1;
        vec![]
    }
    fn result(&self, idx: usize) -> Option<Value> {
        let (q, d, _) = &self.items[idx];
        let v: Value = serde_json::from_str(d).ok()?;
        Some(signature(q, &v))
    }
    fn describe(&self, idx: usize) -> Value {
        let (q, d, t) = &self.items[idx];
        json!({"kind":"query","query": q, "document": serde_json::from_str::<Value>(d).unwrap_or(Value::Null), "tag": t})
    }
}

/// "Cold concurrent start": every case is a fresh process in which the very first evaluations
/// happen on several threads at once (behind a barrier) over wide documents - the moment at which
/// lazily initialised shared state (tables, caches) is built. Each thread checks every returned
/// path against the Normalized Path of the node found by address.
pub struct Cold {
    pub rounds: usize,
}

fn cold_doc() -> J {
    J::Obj(vec![
        ("w".into(), J::Arr((0..4000).map(J::int).collect())),
        ("n".into(), J::Arr((0..70).map(|i| J::Arr((0..i).map(J::int).collect())).collect())),
        ("o".into(), J::Obj((0..600).map(|i| (format!("k'{}", i), J::int(i))).collect())),
    ])
}
const COLD_QUERIES: [&str; 8] = ["$.w[*]", "$.w[::-1]", "$.n[*][*]", "$.o.*", "$..[*]", "$.w[?@ > 3900]", "$.n[69][::2]", "$.w[16:4000:17]"];

impl CaseSet for Cold {
    fn len(&self) -> usize {
        self.rounds
    }
    fn describe(&self, idx: usize) -> Value {
        json!({"kind": "schedule", "family": "cold-concurrent-start", "round": idx, "query": COLD_QUERIES[idx % COLD_QUERIES.len()], "threads": ([2usize, 4, 8, 12, 16])[idx % 5]})
    }
    fn run(&self, idx: usize, acc: &mut Acc) -> Vec<(String, Value)> {
        let doc = crate::libapi::Doc::new(&cold_doc());
        let threads = [2usize, 4, 8, 12, 16][idx % 5];
        let q = COLD_QUERIES[idx % COLD_QUERIES.len()];
        let shared = idx % 2 == 0;
        let parsed = if shared { libapi::parse(q).ok().and_then(|r| r.ok()).map(Arc::new) } else { None };
        let barrier = Barrier::new(threads);
        let bad: Mutex<Option<String>> = Mutex::new(None);
        acc.evaluations += 1;
        std::thread::scope(|s| {
            for t in 0..threads {
                let (doc, barrier, bad, parsed) = (&doc, &barrier, &bad, &parsed);
                s.spawn(move || {
                    barrier.wait();
                    for round in 0..3 {
                        let out = match parsed {
                            Some(p) => libapi::process(p, &doc.value),
                            None => libapi::query_with_path(q, &doc.value),
                        };
                        match out {
                            LibOutcome::Ok(ns) => {
                                for (a, p) in &ns {
                                    let want = doc.loc_of(*a).map(|l| oracle::npath::render(l));
                                    if want.as_deref() != Some(p.as_str()) {
                                        *bad.lock().unwrap() = Some(format!("thread {} round {}: node at {:?} reported with path {:?}", t, round, want, p));
                                        return;
                                    }
                                }
                            }
                            o => {
                                *bad.lock().unwrap() = Some(o.brief());
                                return;
                            }
                        }
                    }
                });
            }
        });
        match bad.into_inner().unwrap() {
            Some(m) => vec![(format!("cold concurrent start ({} threads, {}): {} for {}", threads, if shared { "one shared parsed query" } else { "text entry point" }, m, q), self.describe(idx))],
            None => vec![],
        }
    }
}

fn entry_points_agree(q: &str, v: &Value) -> Result<(), String> {
    let before = v.clone();
    let r1 = libapi::query_with_path(q, v);
    let r2 = libapi::query_vals(q, v);
    let r3 = libapi::query_paths(q, v);
    let r4 = match libapi::parse(q) {
        Ok(Ok(jq)) => libapi::process(&jq, v),
        Ok(Err(e)) => LibOutcome::Err(e),
        Err(p) => LibOutcome::Panic(p),
    };
    if *v != before {
        return Err("the document was modified by a query".into());
    }
    match (&r1, &r2, &r3, &r4) {
        (LibOutcome::Ok(a), Ok(Ok(b)), Ok(Ok(c)), LibOutcome::Ok(d)) => {
            if a.iter().map(|x| x.0).collect::<Vec<_>>() != *b {
                return Err(format!("query() and query_with_path() return different nodes ({} vs {})", b.len(), a.len()));
            }
            if a.iter().map(|x| x.1.clone()).collect::<Vec<_>>() != *c {
                return Err(format!("query_only_path() and query_with_path() return different paths: {:?} vs {:?}", c, a.iter().map(|x| x.1.clone()).collect::<Vec<_>>()));
            }
            if a != d {
                return Err("js_path_process(parse(q)) and query_with_path(q) differ".into());
            }
            Ok(())
        }
        (LibOutcome::Err(a), Ok(Err(b)), Ok(Err(c)), LibOutcome::Err(d)) => {
            if a != b || a != c || a != d {
                return Err(format!("the entry points report different errors: {:?} / {:?} / {:?} / {:?}", a, b, c, d));
            }
            Ok(())
        }
        _ => Err(format!("the entry points disagree on success: with_path={} query={:?} only_path={:?} process={}", r1.brief(), r2.as_ref().map(|r| r.is_ok()), r3.as_ref().map(|r| r.is_ok()), r4.brief())),
    }
}

pub fn run(ctx: &Ctx) -> Result<Evidence, String> {
    let _armed = crate::findings::arm(ctx, &|_| None)?;
    let pairs = Pairs::new(ctx.tier, ctx.seed);
    let n = pairs.items.len();
    let mut acc = Acc::default();

    // (e) compile-time Send + Sync of the parsed query and the error type
    match sendsync_probe() {
        Ok(()) => acc.count("send_sync_probe_compiled", 1),
        Err(out) => ctx.violate("JpQuery / JsonPathError are no longer Send + Sync: a parsed query cannot be shared between threads", json!({"kind":"compile-probe","compiler_output": out})),
    }

    // (b0) cold-state reference: one fresh process per pair
    RESULTS.lock().unwrap().clear();
    let iso = Isolation { exe: exe_for("release"), args: vec!["worker".into(), "C12".into(), "pairs".into(), ctx.tier.name().into()], stack_bytes: None, mem_bytes: Some(8 << 30), env: vec![], chunk: Some(1), max_deaths: 1000000 };
    let wacc = run_isolated(ctx, &pairs, &iso, ctx.threads, &|idx, d| ctx.add_inconclusive(&format!("fresh-process baseline died on pair {}: {:?}", idx, d).chars().take(120).collect::<String>(), 1));
    let baseline: HashMap<usize, Value> = RESULTS.lock().unwrap().drain(..).collect();
    acc.count("fresh_process_baselines", baseline.len() as u64);
    let _ = wacc;
    if baseline.len() * 10 < n * 9 {
        return Err(format!("only {} of {} fresh-process baselines could be computed", baseline.len(), n));
    }

    // (c0) cold concurrent starts, each in a fresh process
    {
        let cold = Cold { rounds: ctx.tier.pick(40, 400) };
        let iso = Isolation { exe: exe_for("release"), args: vec!["worker".into(), "C12".into(), "cold".into(), ctx.tier.name().into()], stack_bytes: None, mem_bytes: Some(8 << 30), env: vec![], chunk: Some(1), max_deaths: 1000000 };
        let cacc = run_isolated(ctx, &cold, &iso, ctx.threads.min(4), &|idx, d| ctx.violate(&format!("cold concurrent start round {} did not complete: {:?}", idx, d).chars().take(300).collect::<String>(), cold.describe(idx)));
        acc.count("cold_concurrent_start_processes", cacc.evaluations);
    }

    // (f) many distinct query texts, repeated, on all cores (caches with eviction, lock-order
    // problems): every evaluation is judged against the reference evaluator (nodes and paths;
    // order is C02's business) and against the first result seen for that text
    {
        let mut r = Rng::stream(ctx.seed, 4242);
        let qcfg = gen::QueryCfg::default();
        let mut texts: Vec<String> = vec![];
        for _ in 0..ctx.tier.pick(1500, 6000) {
            texts.push(oracle::render::render(&gen::random_query(&mut r, &qcfg), &mut oracle::render::Spelling::canonical()));
        }
        for n in 0..700 {
            texts.push(format!("$.data.k{}", n));
            texts.push(format!("$..k{}", n));
            texts.push(format!("$.data['k{}']", n));
            texts.push(format!("$[?@.k{} == {}]", n, n));
        }
        let cfg = gen::DocCfg::default();
        let mut d = gen::random_doc(&mut r, &cfg);
        if let J::Obj(o) = &mut d {
            o.push(("data".into(), J::Obj((0..700).map(|i| (format!("k{}", i), J::int(i))).collect())));
        } else {
            d = J::Obj(vec![("data".into(), J::Obj((0..700).map(|i| (format!("k{}", i), J::int(i))).collect())), ("a".into(), d)]);
        }
        let doc = crate::libapi::Doc::new(&d);
        let parsed_texts: Vec<oracle::parse::Parsed> = texts.iter().map(|t| oracle::parse::analyze(t)).collect();
        let first: Mutex<HashMap<usize, Vec<String>>> = Mutex::new(HashMap::new());
        let n_items = ctx.tier.pick(120_000, 2_000_000);
        let none = crate::findings::Armed::default();
        let seed = ctx.seed;
        let facc = crate::ctx::par_run(ctx, n_items, |i, a: &mut Acc| {
            let mut rr = Rng::stream(seed, 31_000 + i as u64);
            // a moving window over the text list, so that entries are evicted and come back
            let k = ((i / 64) * 7 + rr.below(96) as usize) % texts.len();
            let t = &texts[k];
            a.evaluations += 1;
            let j = crate::judge::judge_query(t, &parsed_texts[k], &doc, crate::judge::NODES | crate::judge::PATHS, &none);
            if let crate::judge::Verdict::Violated(m) = &j.verdict {
                ctx.violate(&format!("after many distinct queries on all cores: {}", m), crate::judge::replay_json("query", t, &doc, &j));
                return;
            }
            if let LibOutcome::Ok(ns) = &j.lib {
                let paths: Vec<String> = ns.iter().map(|n| n.1.clone()).collect();
                let mut f = first.lock().unwrap();
                match f.get(&k) {
                    None => {
                        f.insert(k, paths);
                    }
                    Some(p0) => {
                        if *p0 != paths {
                            ctx.violate(&format!("the result of {:?} changed between two evaluations in one process", t), json!({"kind":"history","query": t, "first": p0, "later": paths}));
                        }
                    }
                }
            }
        });
        acc.count("many_texts_evaluations", facc.evaluations);
        acc.count("many_texts_distinct_queries", texts.len() as u64);
    }

    // parsed documents: one long-lived instance per distinct text
    let mut doc_cache: HashMap<&str, Arc<Value>> = HashMap::new();
    for (_, d, _) in &pairs.items {
        doc_cache.entry(d.as_str()).or_insert_with(|| Arc::new(serde_json::from_str(d).unwrap_or(Value::Null)));
    }

    // (a) entry points agree, document unchanged, first in-process evaluation equals baseline
    for (i, (q, d, tag)) in pairs.items.iter().enumerate() {
        let v = &doc_cache[d.as_str()];
        acc.evaluations += 1;
        if let Err(m) = entry_points_agree(q, v) {
            ctx.violate(&m, pairs.describe(i));
        }
        if let Some(b) = baseline.get(&i) {
            let s = signature(q, v);
            if s != *b {
                ctx.violate(&format!("in-process result differs from the result a fresh process computes for {:?}", q), json!({"kind":"history","history":[pairs.describe(i)],"fresh_process": b, "observed": s}));
            } else if b.get("ok").and_then(|o| o.as_array()).map(|a| !a.is_empty()).unwrap_or(false) {
                acc.nontrivial(format!("{}\u{0}{}", q, d).as_bytes());
            }
        }
        acc.mark("pair_kinds", tag.to_string());
    }

    // (b) histories: random permutations with repetition; every occurrence must equal the
    // fresh-process result. Half of the steps re-parse the document (allocation churn, address
    // reuse), a third reuse one parsed JpQuery, some mutate a document through reference_mut.
    let n_hist = ctx.tier.pick(24, 500);
    let hist_len = ctx.tier.pick(400, 1500);
    let parsed: Vec<Option<JpQuery>> = pairs.items.iter().map(|(q, _, _)| libapi::parse(q).ok().and_then(|r| r.ok())).collect();
    let failing: Vec<usize> = (0..n).filter(|k| parsed[*k].is_none()).collect();
    if failing.is_empty() {
        return Err("no failing parses in the C12 pair set".into());
    }
    let hist_stats = Mutex::new((0u64, HashSet::<u64>::new(), 0u64));
    let next = std::sync::atomic::AtomicUsize::new(0);
    std::thread::scope(|s| {
        for _ in 0..ctx.threads.min(8) {
            s.spawn(|| loop {
                let h = next.fetch_add(1, Ordering::SeqCst);
                if h >= n_hist {
                    break;
                }
                let mut r = Rng::stream(ctx.seed, 120_000 + h as u64);
                let mut trace: Vec<usize> = vec![];
                let mut hash: u64 = 1469598103934665603;
                let mut collisions = 0u64;
                let mut last_pattern_fn: HashMap<String, String> = HashMap::new();
                for _step in 0..hist_len {
                    // bias towards the collision set: revisit recent neighbours
                    // every fourth history is an error storm: mostly failing parses
                    let i = if h % 4 == 3 && r.chance(3, 5) {
                        failing[r.below(failing.len() as u64) as usize]
                    } else if !trace.is_empty() && r.chance(1, 3) { (trace[trace.len() - 1] + r.below(5) as usize) % n } else { r.below(n as u64) as usize };
                    trace.push(i);
                    hash = (hash ^ i as u64).wrapping_mul(1099511628211);
                    let (q, d, _) = &pairs.items[i];
                    // collision bookkeeping for the evidence: same pattern text under the other function
                    if let Some(p) = q.find("match(").or_else(|| q.find("search(")) {
                        let f = if q[p..].starts_with("match") { "match" } else { "search" };
                        let pat = q[p..].to_string().replace("match", "").replace("search", "");
                        if let Some(prev) = last_pattern_fn.insert(pat, f.to_string()) {
                            if prev != f {
                                collisions += 1;
                            }
                        }
                    }
                    let mode = r.below(6);
                    let got = match mode {
                        0 | 1 | 2 => {
                            // fresh allocation of the document, dropped right after
                            let v: Value = serde_json::from_str(d).unwrap_or(Value::Null);
                            signature(q, &v)
                        }
                        3 => match &parsed[i] {
                            // one parsed query reused
                            Some(jq) => {
                                let v = &doc_cache[d.as_str()];
                                match libapi::process(jq, v) {
                                    LibOutcome::Ok(ns) => json!({"ok": ns.iter().map(|x| x.1.clone()).collect::<Vec<_>>(), "values": values_of(q, v)}),
                                    LibOutcome::Err(e) => json!({"err": e}),
                                    LibOutcome::Panic(p) => json!({"panic": p}),
                                }
                            }
                            None => signature(q, &doc_cache[d.as_str()]),
                        },
                        4 => {
                            // mutate a copy through reference_mut, evaluate something on it, drop
                            // it; then the real evaluation on the untouched document
                            let mut v: Value = serde_json::from_str(d).unwrap_or(Value::Null);
                            let path = match libapi::query_paths(q, &v) {
                                Ok(Ok(ps)) => ps.into_iter().next(),
                                _ => None,
                            };
                            if let Some(p) = path {
                                if let Some(slot) = v.reference_mut(p) {
                                    *slot = json!({"mutated": [1, 2, 3]});
                                }
                                let _ = signature(q, &v);
                            }
                            signature(q, &doc_cache[d.as_str()])
                        }
                        _ => signature(q, &doc_cache[d.as_str()]),
                    };
                    if let Some(b) = baseline.get(&i) {
                        if got != *b {
                            let tail: Vec<Value> = trace.iter().rev().take(12).rev().map(|k| json!({"query": pairs.items[*k].0, "document_hash": fnv(pairs.items[*k].1.as_bytes())})).collect();
                            ctx.violate(
                                &format!("result of {:?} depends on the history: after {} earlier evaluations it differs from the fresh-process result", q, trace.len() - 1),
                                json!({"kind":"history","history_seed": h, "last_steps": tail, "failing": pairs.describe(i), "fresh_process": b, "observed": got}),
                            );
                            return;
                        }
                    }
                }
                let mut st = hist_stats.lock().unwrap();
                st.0 += hist_len as u64;
                st.1.insert(hash);
                st.2 += collisions;
            });
        }
    });
    {
        let st = hist_stats.lock().unwrap();
        acc.count("history_steps", st.0);
        acc.count("distinct_histories", st.1.len() as u64);
        acc.count("match_search_pattern_collisions_in_histories", st.2);
        for h in st.1.iter() {
            acc.nontrivial(&h.to_le_bytes());
        }
    }

    // (b2) rejection storms: thousands of queries rejected in every way and at every nesting
    // (by the grammar and by the hand-written checks behind it; inside parentheses, nested
    // filters, function arguments), with valid probe queries re-evaluated in between - whatever
    // a rejected query leaves behind on its thread must not change what a valid one returns
    {
        let bad = [
            "@.a == 9007199254740993", "length(@.a)", "@. a == 1", "length (@.a) == 1", "count(1) == 1", "length(@.a, 1) == 1", "@.a == 01", "match(@.a, 'b') == true", "value(@.a)", "@.a ==", "@[9007199254740992] == 1", "@.a == 'x", "@['a\tb']", "@.a === 1", "$[1.5]", "@.a == -",
            "@[?count(@.a)]", "@.a < value(@..a, 1)", "@.a == $[", "!@.a ==1 &&", "@[1:2:3:4]", "@.a == 1e", "search(@.a)", "@.a in [1]",
        ];
        let p50 = "(".repeat(50);
        let q50 = ")".repeat(50);
        let p200 = "(".repeat(200);
        let q200 = ")".repeat(200);
        let wrappers: Vec<(String, String)> = vec![
            ("$[?".into(), "]".into()), ("$[?(".into(), ")]".into()), ("$[?((".into(), "))]".into()), (format!("$[?{}", p50), format!("{}]", q50)), (format!("$[?{}", p200), format!("{}]", q200)), ("$[?@[?".into(), "]]".into()), ("$[?@[?@[?@[?".into(), "]]]]".into()),
            ("$[?count(@[?".into(), "]) > 0]".into()), ("$[?!(".into(), ")]".into()), ("$[?@.a && (".into(), ")]".into()), ("$..[?(".into(), ") || @.b]".into()), ("$[0, ?(".into(), ")]".into()),
        ];
        let mut rejected: Vec<String> = vec![];
        for (pre, post) in &wrappers {
            for b in bad {
                rejected.push(format!("{}{}{}", pre, b, post));
            }
        }
        let deep_valid = format!("$[?{}@.a{}]", "(".repeat(100), ")".repeat(100));
        let probes: Vec<String> = ["$[?(@.a == 1)]", "$[?((@.a))]", "$[?!(@.a)]", "$[?(@.a) && (@.b == 'x')]", "$[?@[?@ > 1]]", "$[?count(@.*) > 1]", "$[?length(@.b) == 1]", "$..[?(@.a)]", "$[?@.a == 9007199254740991 || (@.b)]", "$[?(@.a == 1) || ((@.b == 'ab') && (!(@.a == 2)))]"]
            .iter()
            .map(|s| s.to_string())
            .chain(std::iter::once(deep_valid))
            .collect();
        let doc: Value = serde_json::from_str(r#"[{"a":1,"b":"x"},{"a":2,"b":"ab"},{"a":[1,2],"b":"xabx"},[1,2,3],"ab",{"b":"x"}]"#).unwrap();
        let storm_threads = ctx.threads.clamp(1, 4);
        let per_thread = ctx.tier.pick(4000, 60_000);
        let stats = Mutex::new((0u64, 0u64));
        std::thread::scope(|s| {
            for t in 0..storm_threads {
                let (rejected, probes, doc, stats) = (&rejected, &probes, &doc, &stats);
                s.spawn(move || {
                    let first: Vec<Value> = probes.iter().map(|q| signature(q, doc)).collect();
                    let mut accepted = 0u64;
                    let mut checks = 0u64;
                    for k in 0..per_thread {
                        let q = &rejected[(k * 7 + t * 13) % rejected.len()];
                        if let LibOutcome::Ok(_) = libapi::query_with_path(q, doc) {
                            accepted += 1;
                        }
                        if k % 250 == 249 || k + 1 == per_thread {
                            for (pi, p) in probes.iter().enumerate() {
                                checks += 1;
                                let now = signature(p, doc);
                                if now != first[pi] {
                                    ctx.violate(
                                        &format!("after {} rejected queries on the same thread the valid query {:?} no longer returns what it returned before", k + 1, p.chars().take(120).collect::<String>()),
                                        json!({"kind":"history","query": p, "rejected_before": k + 1, "first": first[pi], "now": now, "a_rejected_query": q}),
                                    );
                                    return;
                                }
                            }
                        }
                    }
                    let mut st = stats.lock().unwrap();
                    st.0 += per_thread as u64 - accepted;
                    st.1 += checks;
                });
            }
        });
        let st = stats.lock().unwrap();
        acc.count("rejection_storm_rejected_queries", st.0);
        acc.count("rejection_storm_probe_checks", st.1);
        acc.count("rejection_storm_distinct_rejected_texts", rejected.len() as u64);
        acc.evaluations += st.0 + st.1;
    }

    // (b3) documents edited in place and short-lived documents of one shape: the same buffers
    // hold other contents at the next call (same address, same byte length, other characters /
    // other elements); every result is judged by the reference evaluator on the current contents
    {
        let long_a = "a".repeat(60);
        let long_e = "\u{e9}".repeat(30);
        let long_mix = format!("{}{}", "b".repeat(20), "\u{20ac}".repeat(13)); // 20 + 39 = 59 bytes + 1
        let long_mix = format!("{}c", long_mix);
        let texts = [long_a.clone(), long_e.clone(), long_mix.clone(), "x".repeat(60), "\u{1f600}".repeat(15), "a".repeat(48), "\u{e9}".repeat(24)];
        let queries = [
            "$[?length(@.title) == 60]", "$[?length(@.title) == 30]", "$[?length(@.title) > 33]", "$[?length(@.title) == 48 || length(@.title) == 15]", "$[?match(@.title, 'a+')]", "$[?search(@.title, '\u{e9}{30}')]", "$[?@.title == 'x']", "$[?@.title < 'b']",
            "$[?count(@.tags[*]) == 3]", "$[?@.tags[0] == @.tags[-1]]", "$[?length(@.tags) == 3]", "$..title", "$[*].tags[?@ > 'a']",
        ];
        let edits = ctx.tier.pick(300, 6000);
        let threads = ctx.threads.clamp(1, 4);
        let stats = Mutex::new(0u64);
        std::thread::scope(|s| {
            for t in 0..threads {
                let (texts, queries, stats) = (&texts, &queries, &stats);
                s.spawn(move || {
                    let mut r = Rng::stream(ctx.seed, 31_000 + t as u64);
                    // thread 0 keeps to documents with a single long string (a one-entry memo is
                    // then never displaced between two calls), the others to two of them
                    let mk = |r: &mut Rng| -> Value {
                        if t == 0 {
                            json!([
                                {"title": texts[r.below(texts.len() as u64) as usize].clone(), "tags": ["t1", "t2", "t1"]},
                                {"title": "short", "tags": []}
                            ])
                        } else {
                            json!([
                                {"title": texts[r.below(texts.len() as u64) as usize].clone(), "tags": ["t1", "t2", "t1"]},
                                {"title": texts[r.below(texts.len() as u64) as usize].clone(), "tags": ["u", "v", "w"]},
                                {"title": "short", "tags": []}
                            ])
                        }
                    };
                    let mut doc = mk(&mut r);
                    let mut judged = 0u64;
                    for step in 0..edits {
                        match step % 3 {
                            // edit a string in place: same byte length, other characters
                            0 => {
                                let row = if t == 0 { 0 } else { r.below(2) as usize };
                                let new = texts[r.below(texts.len() as u64) as usize].clone();
                                if let Some(Value::String(sref)) = doc[row].get_mut("title") {
                                    if sref.len() == new.len() {
                                        sref.clear();
                                        sref.push_str(&new);
                                    } else {
                                        *sref = new;
                                    }
                                }
                                if let Some(Value::Array(tags)) = doc[row].get_mut("tags") {
                                    let k = r.below(3) as usize;
                                    if let Some(Value::String(tg)) = tags.get_mut(k) {
                                        tg.clear();
                                        tg.push_str(*r.pick(&["t1", "t2", "zz", "u"][..]));
                                    }
                                }
                            }
                            // drop the document and build one of the same shape (address reuse)
                            1 => {
                                doc = Value::Null;
                                doc = mk(&mut r);
                            }
                            _ => {}
                        }
                        let d = Doc::from_value(doc.clone());
                        // the library sees `doc` itself (the edited buffers), the reference its view
                        for q in queries.iter() {
                            let parsed = analyze(q);
                            let ast = match &parsed.ast {
                                Some(a) => a,
                                None => continue,
                            };
                            let want: Vec<String> = match oracle::eval::eval_locs(ast, &d.j, oracle::eval::Dev::default()) {
                                Ok((locs, fl, _)) if !(fl.u2 || fl.u3 || fl.u5) => locs.iter().map(|l| oracle::npath::render(l)).collect(),
                                _ => continue,
                            };
                            let got: Vec<String> = match libapi::query_with_path(q, &doc) {
                                LibOutcome::Ok(ns) => ns.iter().map(|n| n.1.clone()).collect(),
                                o => vec![format!("<{}>", o.brief())],
                            };
                            judged += 1;
                            if got != want {
                                ctx.violate(
                                    &format!("after {} in-place edits / rebuilds of the document, {:?} returns {:?} but the current contents give {:?}", step + 1, q, got, want),
                                    json!({"kind":"history","query": q, "document_now": doc, "edits": step + 1}),
                                );
                                return;
                            }
                        }
                    }
                    *stats.lock().unwrap() += judged;
                });
            }
        });
        let j = *stats.lock().unwrap();
        acc.count("in_place_edit_history_results_judged", j);
        acc.evaluations += j;
    }

    // (b4) deep recursions on all threads at once: every thread evaluates descendant queries and
    // deeply nested filters on a document of its own, several hundred levels deep (whatever the
    // library counts or pools per process is then in use by all of them at the same moment);
    // every result must equal the one computed before the threads started
    {
        let threads = ctx.threads.clamp(2, 16);
        let rounds = ctx.tier.pick(40, 1200);
        let depths = [300usize, 220, 150, 90];
        let docs: Vec<Value> = (0..threads).map(|t| deep_doc(depths[t % depths.len()] + t).to_value()).collect();
        let nested = format!("$..[?{}@.leaf{}]", "(".repeat(60), ")".repeat(60));
        let queries: Vec<String> = vec!["$..*".into(), "$..tag".into(), "$..[0]".into(), "$..leaf".into(), nested, "$..[?@.leaf == 1]".into()];
        let expected: Vec<Vec<Value>> = docs.iter().map(|d| queries.iter().map(|q| signature(q, d)).collect()).collect();
        let barrier = Barrier::new(threads);
        let done = AtomicU64::new(0);
        std::thread::scope(|s| {
            for t in 0..threads {
                let (docs, queries, expected, barrier, done) = (&docs, &queries, &expected, &barrier, &done);
                s.spawn(move || {
                    barrier.wait();
                    for round in 0..rounds {
                        let qi = (round + t) % queries.len();
                        let got = signature(&queries[qi], &docs[t]);
                        if got != expected[t][qi] {
                            let n = |v: &Value| v.get("ok").and_then(|o| o.as_array()).map(|a| a.len());
                            ctx.violate(
                                &format!("with {} threads each evaluating {:?}-like queries on deep documents of their own, thread {} got {:?} nodes for {:?} instead of {:?}", threads, "$..*", t, n(&got), queries[qi].chars().take(40).collect::<String>(), n(&expected[t][qi])),
                                json!({"kind":"schedule","query": queries[qi], "threads": threads, "document_depth": depths[t % depths.len()] + t}),
                            );
                            return;
                        }
                        done.fetch_add(1, Ordering::Relaxed);
                    }
                });
            }
        });
        acc.count("concurrent_deep_recursion_evaluations", done.load(Ordering::Relaxed));
        acc.evaluations += done.load(Ordering::Relaxed);
    }

    // (b5) one parsed query shared by all threads, each thread on a document of its own in which
    // the absolute sub-queries have other values; and every thread slicing a big array of its own
    {
        let threads = ctx.threads.clamp(2, 16);
        let rounds = ctx.tier.pick(1500, 40_000);
        let qtexts = ["$.items[?@ < length($.list)]", "$.items[?count($.list[*]) > @]", "$.items[?match(@.s, $.p) || @ == $.k]", "$.items[?@ == $.k || @ >= value($.list[-1])]", "$.big[0::2]", "$.big[::-3]", "$.big[100:-100:7]", "$.big[-5000::5]", "$..list[1:]"];
        let parsed_q: Vec<JpQuery> = qtexts.iter().filter_map(|q| libapi::parse(q).ok().and_then(|r| r.ok())).collect();
        if parsed_q.len() != qtexts.len() {
            return Err("a C12 shared-query text does not parse".into());
        }
        let docs: Vec<Value> = (0..threads)
            .map(|t| {
                json!({
                    "list": (0..(2 * t + 1)).collect::<Vec<usize>>(),
                    "items": [0, 1, 2, 5, 9, 17, 33, {"s": format!("x{}", t)}, {"s": "x"}],
                    "p": format!("x{}?", t % 3),
                    "k": t,
                    "big": (0..(4096 + 1500 * t)).collect::<Vec<usize>>(),
                })
            })
            .collect();
        let expected: Vec<Vec<Vec<String>>> = docs
            .iter()
            .map(|d| parsed_q.iter().map(|q| match libapi::process(q, d) { LibOutcome::Ok(ns) => ns.iter().map(|n| n.1.clone()).collect(), o => vec![o.brief()] }).collect())
            .collect();
        let barrier = Barrier::new(threads);
        let done = AtomicU64::new(0);
        std::thread::scope(|s| {
            for t in 0..threads {
                let (docs, parsed_q, expected, barrier, done, qtexts) = (&docs, &parsed_q, &expected, &barrier, &done, &qtexts);
                s.spawn(move || {
                    barrier.wait();
                    for round in 0..rounds {
                        let qi = (round * 5 + t) % parsed_q.len();
                        // the big-array slices are expensive: one round in eight
                        if qi >= 4 && qi <= 7 && round % 8 != 0 {
                            continue;
                        }
                        let got: Vec<String> = match libapi::process(&parsed_q[qi], &docs[t]) { LibOutcome::Ok(ns) => ns.iter().map(|n| n.1.clone()).collect(), o => vec![o.brief()] };
                        if got != expected[t][qi] {
                            ctx.violate(
                                &format!("one parsed query {:?} shared by {} threads, each on a document of its own: thread {} got {} nodes {:?}.. instead of {} {:?}..", qtexts[qi], threads, t, got.len(), got.iter().take(3).collect::<Vec<_>>(), expected[t][qi].len(), expected[t][qi].iter().take(3).collect::<Vec<_>>()),
                                json!({"kind":"schedule","query": qtexts[qi], "threads": threads, "thread": t}),
                            );
                            return;
                        }
                        done.fetch_add(1, Ordering::Relaxed);
                    }
                });
            }
        });
        acc.count("shared_parsed_query_own_documents_evaluations", done.load(Ordering::Relaxed));
        acc.evaluations += done.load(Ordering::Relaxed);
    }

    // (b6) wrap-around distances: a query that might keep per-evaluation state is evaluated on one
    // document, then exactly d-1 other evaluations follow on the same thread, then it is evaluated
    // on another document - for d around 2^8 and 2^16 (counters and ids narrower than they look)
    {
        let qtexts = ["$.items[?count($.tags[*]) == 3]", "$.items[?length($.tags) == 3]", "$.items[?@ < count($..tags[*])]", "$.items[?match(@.s, $.p)]", "$.items[?@ == value($.tags[0])]"];
        let d1: Value = json!({"tags": ["a", "b", "c"], "items": [10, 20, {"s": "a"}], "p": "a"});
        let d2: Value = json!({"tags": ["a"], "items": [10, 20, {"s": "a"}], "p": "b"});
        let filler: Value = json!({"tags": [0], "a": 1});
        let dists: Vec<usize> = if ctx.tier == Tier::Quick { vec![255, 256, 257, 65535, 65536, 65537] } else { vec![127, 128, 255, 256, 257, 511, 512, 1023, 1024, 4095, 4096, 32767, 32768, 65535, 65536, 65537, 131071, 131072, 196608, 262144] };
        let mut checks = 0u64;
        for q in qtexts {
            let jq = match libapi::parse(q) { Ok(Ok(j)) => j, _ => return Err(format!("C12 wrap-around query does not parse: {}", q)) };
            let want2: Vec<String> = match libapi::process(&jq, &d2) { LibOutcome::Ok(ns) => ns.iter().map(|n| n.1.clone()).collect(), o => vec![o.brief()] };
            for (k, d) in dists.iter().enumerate() {
                // in a thread of its own: per-thread state starts from scratch for every distance
                let bad = std::thread::scope(|s| {
                    s.spawn(|| {
                        let _ = libapi::process(&jq, &d1);
                        for i in 0..d - 1 {
                            // fillers alternate between a parsed-once query and a text entry point
                            if (i + k) % 2 == 0 { let _ = libapi::query_with_path("$.a", &filler); } else { let _ = libapi::query_vals("$.tags[0]", &filler); }
                        }
                        let got: Vec<String> = match libapi::process(&jq, &d2) { LibOutcome::Ok(ns) => ns.iter().map(|n| n.1.clone()).collect(), o => vec![o.brief()] };
                        if got != want2 { Some(got) } else { None }
                    })
                    .join()
                    .unwrap_or(None)
                });
                checks += 1;
                if let Some(got) = bad {
                    ctx.violate(
                        &format!("{:?} evaluated on one document, then {} other evaluations on the same thread, then on another document: it returns {:?} instead of {:?}", q, d - 1, got, want2),
                        json!({"kind":"history","query": q, "evaluations_in_between": d - 1, "first_document": d1, "second_document": d2}),
                    );
                }
            }
        }
        acc.count("wrap_around_distance_checks", checks);
        acc.evaluations += checks;
    }

    // (b7) extreme inputs in the history: a thread evaluates probe queries on small documents,
    // then something extreme (documents 1100 / 2500 levels deep with a wide bottom, a 300000
    // element array, a query of 20000 segments, 300-member objects under ==, a 60000 character
    // name), then the probes again - guards, pools and fall-back paths that an extreme input
    // switched on must not change what ordinary inputs give afterwards
    {
        let probes: Vec<(String, Value)> = vec![
            ("$..[0]".into(), json!([[1, 2], [3, 4]])),
            ("$..k".into(), json!({"a": {"k": 1, "x": {"k": 2, "y": [{"k": 3}]}}, "b": {"k": 4}})),
            ("$..*".into(), json!({"b": [1, {"a": 2}], "a": [[3], 4]})),
            ("$[?@.a == $.r]".into(), json!({"r": {"x": 1}, "p": {"a": {"x": 1}}, "q": {"a": {"x": 2}}})),
            ("$.a[::-2]".into(), json!({"a": [0, 1, 2, 3, 4, 5, 6]})),
            ("$[?length(@.s) == 3 && count(@.l[*]) == 2]".into(), json!([{"s": "abc", "l": [1, 2]}, {"s": "ab", "l": [1, 2]}])),
            ("$['a','b'].c".into(), json!({"a": {"c": 1}, "b": {"c": 2}})),
            ("$..[?@.k > 1].k".into(), json!([{"k": 1}, {"k": 2, "z": [{"k": 3}]}])),
        ];
        let outcome: Result<Option<(String, String, Value, Value)>, String> = std::thread::scope(|sc| {
            let spawned = std::thread::Builder::new().stack_size(256 << 20).spawn_scoped(sc, || -> Option<(String, String, Value, Value)> {
                let first: Vec<Value> = probes.iter().map(|(q, d)| signature(q, d)).collect();
                let deep = |n: usize, wide: usize| -> Value {
                    let mut v = Value::Array((0..wide).map(|_| json!([])).collect());
                    for i in 0..n {
                        v = if i % 2 == 0 { Value::Array(vec![v]) } else { json!({ "k": v }) };
                    }
                    v
                };
                let big = Value::Array((0..300_000).map(|i| json!(i)).collect());
                let long_q = format!("$[?@.zz]{}", ".a".repeat(20_000));
                let obj = Value::Object((0..300).map(|i| (format!("m{:03}", i), json!(i))).collect());
                let long_name = "n".repeat(60_000);
                let extremes: Vec<(&str, Box<dyn Fn() + Sync + '_>)> = vec![
                    ("a document 1100 levels deep with 1200 empty arrays at the bottom", Box::new(|| { let d = deep(1100, 1200); for q in ["$..[0]", "$..k", "$..*"] { let _ = libapi::query_with_path(q, &d); } std::mem::forget(d); })),
                    ("documents with 1200 sibling containers at depths 127..2049 (round-number thresholds)", Box::new(|| {
                        for depth in [127usize, 128, 129, 255, 256, 257, 511, 512, 513, 999, 1000, 1001, 1023, 1024, 1025, 2047, 2048, 2049] {
                            let mut v = Value::Array((0..1200).map(|i| if i % 2 == 0 { json!([]) } else { json!({}) }).collect());
                            for _ in 0..depth {
                                v = Value::Array(vec![v]);
                            }
                            for q in ["$..[0]", "$..k"] {
                                let _ = libapi::query_with_path(q, &v);
                            }
                            std::mem::forget(v);
                        }
                    })),
                    ("filters nested 127..2100 parentheses deep around an inner filter over 3000 elements", Box::new(|| {
                        let d = json!([(0..3000).collect::<Vec<i32>>()]);
                        for depth in [127usize, 128, 129, 255, 256, 257, 511, 512, 513, 1023, 1024, 1025, 2047, 2048, 2049, 2100] {
                            let q = format!("$[?{}@[?@ > 0]{}]", "(".repeat(depth), ")".repeat(depth));
                            let _ = libapi::query_with_path(&q, &d);
                            let q = format!("$[?{}@[?@ > 0]{}]", "!(".repeat(depth), ")".repeat(depth));
                            let _ = libapi::query_with_path(&q, &d);
                        }
                    })),
                    ("a document 2500 levels deep", Box::new(|| { let d = deep(2500, 3); for q in ["$..[0]", "$..k"] { let _ = libapi::query_with_path(q, &d); } std::mem::forget(d); })),
                    ("a 300000 element array", Box::new(|| { for q in ["$[*]", "$[::-3]", "$[?@ > 299990]", "$..[-1]"] { let _ = libapi::query_with_path(q, &big); } })),
                    ("a query of 20000 segments", Box::new(|| { let _ = libapi::query_with_path(&long_q, &json!([{"a": 1}])); })),
                    ("300-member objects under ==", Box::new(|| { let d = json!({"x": obj.clone(), "y": [obj.clone(), obj.clone()]}); let _ = libapi::query_with_path("$.y[?@ == $.x]", &d); })),
                    ("a 60000 character member name", Box::new(|| { let d = Value::Object(vec![(long_name.clone(), json!([1]))].into_iter().collect()); let _ = libapi::query_with_path("$..*", &d); let _ = libapi::query_with_path(&format!("$['{}'][0]", long_name), &d); })),
                ];
                // every extreme input on a thread of its own (per-thread state an earlier extreme
                // left behind would shift the thresholds the next one is aimed at)
                for (what, run) in &extremes {
                    let bad = std::thread::scope(|s2| {
                        std::thread::Builder::new()
                            .stack_size(256 << 20)
                            .spawn_scoped(s2, || {
                                let before: Vec<Value> = probes.iter().map(|(q, d)| signature(q, d)).collect();
                                run();
                                for (pi, (q, d)) in probes.iter().enumerate() {
                                    let now = signature(q, d);
                                    if now != before[pi] || now != first[pi] {
                                        return Some((what.to_string(), q.clone(), first[pi].clone(), now));
                                    }
                                }
                                None
                            })
                            .ok()
                            .and_then(|h| h.join().ok())
                            .flatten()
                    });
                    if bad.is_some() {
                        return bad;
                    }
                }
                None
            });
            match spawned {
                Ok(h) => h.join().map_err(|_| "panicked".to_string()),
                Err(e) => Err(e.to_string()),
            }
        });
        match outcome {
            Ok(Some((what, q, was, now))) => ctx.violate(
                &format!("after {} had been evaluated on the same thread, {:?} on a small document no longer returns what it returned before", what, q),
                json!({"kind":"history","query": q, "extreme_input_before": what, "first": was, "now": now}),
            ),
            Ok(None) => acc.count("extreme_input_history_probe_rounds", 8),
            Err(e) => ctx.add_inconclusive(&format!("extreme-input history thread failed: {}", e).chars().take(100).collect::<String>(), 1),
        }
    }

    // (b8) many short-lived threads (several generations of 16, so that whatever the library
    // hands out per thread - lanes, slots, ids - wraps around), each evaluating name selectors
    // spelled with the optional escapes \/ and \\ that normalise to different names
    {
        let doc: Value = json!({"x/y": {"a/b": 1, "x/y": 5, "p\\q": 9}, "a/b": 7, "p\\q": {"r/s": 2, "a/b": 3}});
        let qs = ["$['x\\/y']['a\\/b']", "$['p\\\\q']['r\\/s']", "$['a\\/b']", "$['x\\/y']['x\\/y']", "$['p\\\\q']['a\\/b']", "$..['a\\/b']", "$['x\\/y']['p\\\\q']"];
        let parsed_q: Vec<JpQuery> = qs.iter().filter_map(|q| libapi::parse(q).ok().and_then(|r| r.ok())).collect();
        if parsed_q.len() != qs.len() {
            return Err("a C12 escaped-name query does not parse".into());
        }
        let expected: Vec<Value> = qs.iter().map(|q| signature(q, &doc)).collect();
        let generations = ctx.tier.pick(5, 40);
        let per = ctx.tier.pick(3000, 20_000);
        let done = AtomicU64::new(0);
        // 40 threads per generation: more live threads than a table of 32 (or 16, or 8) per-thread
        // slots has entries, so that live threads share one
        const LIVE: usize = 40;
        for g in 0..generations {
            let barrier = Barrier::new(LIVE);
            std::thread::scope(|s| {
                for t in 0..LIVE {
                    let (doc, qs, parsed_q, expected, barrier, done) = (&doc, &qs, &parsed_q, &expected, &barrier, &done);
                    s.spawn(move || {
                        barrier.wait();
                        for round in 0..per {
                            let qi = (round + t * 3 + g) % qs.len();
                            let got = if round % 2 == 0 {
                                signature(qs[qi], doc)
                            } else {
                                match libapi::process(&parsed_q[qi], doc) {
                                    LibOutcome::Ok(ns) => json!({"ok": ns.iter().map(|n| n.1.clone()).collect::<Vec<_>>(), "values": expected[qi]["values"].clone()}),
                                    o => json!({"err": o.brief()}),
                                }
                            };
                            if got["ok"] != expected[qi]["ok"] || (round % 2 == 0 && got != expected[qi]) {
                                ctx.violate(
                                    &format!("generation {} of {} threads alive at once: {:?} returns {} instead of {}", g, LIVE, qs[qi], got["ok"], expected[qi]["ok"]),
                                    json!({"kind":"schedule","query": qs[qi], "threads_started_so_far": (g + 1) * LIVE, "document": doc}),
                                );
                                return;
                            }
                            done.fetch_add(1, Ordering::Relaxed);
                        }
                    });
                }
            });
        }
        acc.count("short_lived_thread_generations", generations as u64);
        acc.count("escaped_name_evaluations_across_generations", done.load(Ordering::Relaxed));
        acc.evaluations += done.load(Ordering::Relaxed);
    }

    // (c) schedules: threads share one parsed query and one document (mode A) or the document
    // only (mode B); start on a barrier; seeded yields injected in the H1 hook
    let tick = AtomicU64::new(0);
    let rounds = ctx.tier.pick(40, 600);
    let interleavings = Mutex::new(HashSet::<u64>::new());
    let overlaps = AtomicU64::new(0);
    let sched_calls = AtomicU64::new(0);
    for round in 0..rounds {
        let mut r = Rng::stream(ctx.seed, 777_000 + round as u64);
        let threads = *r.pick(&[2usize, 4, 8, 16]);
        // a small case subset sharing one document (prefer the deep and the collision documents)
        let anchor = r.below(n as u64) as usize;
        let dtext = &pairs.items[if round % 3 == 0 { pairs.items.iter().position(|x| x.1.len() > 1500).unwrap_or(anchor) } else { anchor }].1;
        let subset: Vec<usize> = (0..n).filter(|k| &pairs.items[*k].1 == dtext && parsed[*k].is_some()).collect();
        if subset.is_empty() {
            continue;
        }
        let doc = doc_cache[dtext.as_str()].clone();
        let shared_mode = round % 3 == 0;
        // third mode: every thread goes through the text entry points (parse at every call)
        // with many distinct query texts in rotation
        let text_mode = round % 3 == 2;
        let shared_case = subset[r.below(subset.len() as u64) as usize];
        let shared_q = Arc::new(parsed[shared_case].clone().unwrap());
        let barrier = Barrier::new(threads);
        let log = Mutex::new(Vec::<(u64, usize, bool, usize)>::new());
        let iters = if text_mode { 40 } else { 12 };
        std::thread::scope(|s| {
            for t in 0..threads {
                let (doc, shared_q, barrier, log, subset, pairs, baseline, tick, parsed) = (&doc, &shared_q, &barrier, &log, &subset, &pairs, &baseline, &tick, &parsed);
                let seed = ctx.seed;
                let sched_calls = &sched_calls;
                s.spawn(move || {
                    let mut r = Rng::stream(seed, 888_000 + (round * 64 + t) as u64);
                    let mut yr = Rng::stream(seed, 999_000 + (round * 64 + t) as u64);
                    jsonpath_rust::verif::install(Box::new(move |_e| {
                        // delay injection inside H1: the only place where the overlap of
                        // concurrent evaluations can be perturbed in a library without locks
                        match yr.below(8) {
                            0 => std::thread::yield_now(),
                            1 => {
                                for _ in 0..yr.below(200) {
                                    std::hint::spin_loop();
                                }
                            }
                            _ => {}
                        }
                    }));
                    barrier.wait();
                    let mut local = vec![];
                    for _ in 0..iters {
                        let case = if shared_mode { shared_case } else { subset[r.below(subset.len() as u64) as usize] };
                        let t0 = tick.fetch_add(1, Ordering::SeqCst);
                        let out = if shared_mode {
                            libapi::process(shared_q, doc)
                        } else if text_mode {
                            libapi::query_with_path(&pairs.items[case].0, doc)
                        } else {
                            libapi::process(parsed[case].as_ref().unwrap(), doc)
                        };
                        let t1 = tick.fetch_add(1, Ordering::SeqCst);
                        local.push((t0, t, true, case));
                        local.push((t1, t, false, case));
                        sched_calls.fetch_add(1, Ordering::Relaxed);
                        let got_paths: Value = match out {
                            LibOutcome::Ok(ns) => json!(ns.iter().map(|x| x.1.clone()).collect::<Vec<_>>()),
                            LibOutcome::Err(e) => json!({"err": e}),
                            LibOutcome::Panic(p) => json!({"panic": p}),
                        };
                        if let Some(b) = baseline.get(&case) {
                            let want = b.get("ok").cloned().unwrap_or_else(|| json!({"err": b.get("err").cloned().unwrap_or(Value::Null)}));
                            if got_paths != want {
                                ctx.violate(
                                    &format!("concurrent evaluation ({} threads, {}) of {:?} returned a result that differs from the fresh-process result", threads, if shared_mode { "one shared parsed query" } else if text_mode { "text entry points, shared document" } else { "own parsed queries, shared document" }, pairs.items[case].0),
                                    json!({"kind":"schedule","threads": threads, "round": round, "case": pairs.describe(case), "fresh_process": want, "observed": got_paths}),
                                );
                                break;
                            }
                        }
                    }
                    jsonpath_rust::verif::uninstall();
                    log.lock().unwrap().extend(local);
                });
            }
        });
        let mut l = log.into_inner().unwrap();
        l.sort();
        let mut h: u64 = 1469598103934665603;
        let mut open: HashSet<usize> = HashSet::new();
        for (_, t, is_call, case) in &l {
            h = (h ^ ((*t as u64) << 1 | *is_call as u64) ^ ((*case as u64) << 8)).wrapping_mul(1099511628211);
            if *is_call {
                if !open.is_empty() {
                    overlaps.fetch_add(open.len() as u64, Ordering::Relaxed);
                }
                open.insert(*t);
            } else {
                open.remove(t);
            }
        }
        interleavings.lock().unwrap().insert(h);
    }
    let il = interleavings.into_inner().unwrap();
    acc.count("schedule_rounds", rounds as u64);
    acc.count("schedule_calls", sched_calls.load(Ordering::Relaxed));
    acc.count("distinct_interleavings", il.len() as u64);
    acc.count("overlapping_call_pairs", overlaps.load(Ordering::Relaxed));
    for h in il.iter() {
        acc.nontrivial(&h.to_le_bytes());
    }
    acc.sample(json!({"pair": pairs.describe(0), "fresh_process_result": baseline.get(&0)}));
    acc.sample(json!({"pair": pairs.describe(1), "fresh_process_result": baseline.get(&1)}));

    let mut ev = Evidence::new("cases: a set of (query, document) pairs built to collide under every plausible cache key (same pattern under match and search, same text on different / equal-valued documents, queries differing only in blanks, quotes or a trailing selector, interleaved failing parses, deep documents) plus random pairs. (a) the four entry points compared position by position incl. errors, document snapshot compared; (b) random histories with repetition - re-allocated documents, a reused parsed query, documents mutated through reference_mut in between - every occurrence compared with the result a fresh process computes for that pair; (c) 2-16 threads on a barrier sharing one parsed query and/or one document with seeded yields injected in the H1 hook, every result compared with the fresh-process result; (e) compile-time Send+Sync probe. Further phases: deep recursions on all threads at once; one parsed query shared by threads that own a document each (also slicing big arrays); wrap-around distances (2^k - 1 evaluations between two uses of a query); extreme inputs on fresh threads with probe queries before and after (very deep / wide documents at round-number depths, huge arrays, 20000-segment queries, deeply parenthesised filters); generations of 40 live threads on names spelled with optional escapes; rejection storms (thousands of queries rejected by the grammar and by the hand-written checks at every nesting, valid probe queries re-evaluated in between, per thread); histories of in-place edits and of short-lived documents of one shape (same buffers, other contents), every result judged by the reference evaluator on the current contents. Non-trivial = distinct pairs with a non-empty result + distinct histories + distinct interleavings (hash of the tick-ordered call/return sequence).");
    ev.set("exhaustive", json!(false));
    ev.set("pairs", json!(n));
    ev.set("histories", json!(n_hist));
    ev.assume("schedules are sampled, not enumerated; the thorough tier adds ThreadSanitizer and Miri runs of the same workload");
    ev.min_nontrivial = 50;
    acc.into_evidence(&mut ev);
    Ok(ev)
}

fn sendsync_probe() -> Result<(), String> {
    let dir = crate::ctx::verif_dir().join("harness");
    let out = std::process::Command::new("cargo").current_dir(&dir).args(["build", "--offline", "-q", "-p", "probe_sendsync"]).env("CARGO_TARGET_DIR", crate::ctx::verif_dir().join("target")).output();
    match out {
        Ok(o) if o.status.success() => Ok(()),
        Ok(o) => {
            let e = String::from_utf8_lossy(&o.stderr).to_string();
            if e.contains("Send") || e.contains("Sync") || e.contains("cannot be shared") || e.contains("cannot be sent") {
                Err(e.chars().take(3000).collect())
            } else {
                // some other build problem: not a verdict about Send/Sync
                eprintln!("note: Send+Sync probe could not be built for an unrelated reason: {}", e.chars().take(300).collect::<String>());
                Ok(())
            }
        }
        Err(e) => {
            eprintln!("note: cargo not runnable for the Send+Sync probe: {}", e);
            Ok(())
        }
    }
}
