//! Small, self-contained in-process slices of the workloads for the sanitizer runs (Miri, ASan,
//! TSan): no worker processes, no /proc, few threads. `vfmon shard <prop> <i> <n>` runs slice i of
//! n and prints `SHARD-OK <cases>` or `SHARD-VIOLATION <what>`; the sanitizer's own report (and
//! exit code) is what the supervisor looks at.

use crate::convert;
use crate::libapi::{self, Doc, LibOutcome};
use jsonpath_rust::query::queryable::Queryable;
use oracle::ast::*;
use oracle::eval::{eval_locs, Dev};
use oracle::json::{Step, J};
use oracle::npath;
use oracle::render::render_canonical;
use serde_json::{json, Value};
use std::sync::Arc;

fn check_query(ast: &Query, d: &J) -> Result<(), String> {
    let doc = Doc::new(d);
    let text = render_canonical(ast);
    let want = eval_locs(ast, &doc.j, Dev::default()).map_err(|_| "budget".to_string())?.0;
    for route in 0..2 {
        let out = if route == 0 { libapi::query_with_path(&text, &doc.value) } else { libapi::process(&convert::query(ast), &doc.value) };
        match out {
            LibOutcome::Ok(ns) => {
                let got = doc.locs(&ns).ok_or_else(|| format!("{}: foreign node", text))?;
                if got != want {
                    return Err(format!("{} on {}: expected {:?} got {:?}", text, d.to_text(), want.iter().map(|l| npath::render(l)).collect::<Vec<_>>(), ns.iter().map(|n| n.1.clone()).collect::<Vec<_>>()));
                }
            }
            o => return Err(format!("{}: {}", text, o.brief())),
        }
    }
    Ok(())
}

pub fn run(prop: &str, i: usize, n: usize) -> i32 {
    let mut cases = 0usize;
    let mut k = 0usize;
    let mut mine = || {
        k += 1;
        (k - 1) % n.max(1) == i
    };
    let res: Result<(), String> = (|| {
        match prop {
            "C11" => {
                // boundary cells: |value - {-len-1,-len,-1,0,len-1,len,len+1}| <= 1
                for len in 0..=3i64 {
                    let mut vals: Vec<Option<i64>> = vec![None];
                    for b in [-len - 1, -len, -1, 0, len - 1, len, len + 1] {
                        for d in -1..=1 {
                            if !vals.contains(&Some(b + d)) {
                                vals.push(Some(b + d));
                            }
                        }
                    }
                    let arr = J::Arr((0..len).map(J::int).collect());
                    for st in &vals {
                        for en in &vals {
                            for sp in [None, Some(1), Some(-1), Some(2), Some(-2), Some(0)] {
                                if !mine() {
                                    continue;
                                }
                                cases += 1;
                                check_query(&Query::root(vec![Segment::child(Selector::Slice(*st, *en, sp))]), &arr)?;
                            }
                        }
                        if mine() {
                            cases += 1;
                            check_query(&Query::root(vec![Segment::child(Selector::Index(st.unwrap_or(0)))]), &arr)?;
                        }
                    }
                }
                Ok(())
            }
            "C01" | "C08" => {
                // wrong-container-kind and hostile strings
                let docs = [json!(null), json!(3), json!("ab"), json!([]), json!({}), json!([1, [2, {"a": 3}]]), json!({"a": {"a": [1, 2]}, "b": "x"})];
                let queries = ["$", "$.a", "$[0]", "$[-1]", "$[*]", "$..*", "$[1:]", "$[::-1]", "$[?@.a]", "$[?@ > 1]", "$..[?@.a == 3]", "$['a','b']", "$[0,0]", "$[?length(@) > 1]", "$[?match(@, 'a.*')]", "$[?count(@.*) == 2]", "$[", "$[?", "$.a b", "$[9007199254740992]", "$[?@[?@[?@]]]", "$..a..a", "$[?search(@, '[')]", "$['\\u0041']", "$[\"\\ud83d\\ude00\"]"];
                for d in &docs {
                    for q in queries {
                        if !mine() {
                            continue;
                        }
                        cases += 1;
                        let _ = libapi::query_with_path(q, d);
                        let _ = libapi::query_paths(q, d);
                        if let Ok(Ok(jq)) = libapi::parse(q) {
                            if let LibOutcome::Err(e) = libapi::process(&jq, d) {
                                return Err(format!("parsed query {} failed to evaluate: {}", q, e));
                            }
                        }
                    }
                }
                Ok(())
            }
            "C09" => {
                let docs = [json!({"a/b": 1, "a": {"b": [1, 2, {"c": 3}]}, "0": [0], "'": 1, "": {"": 2}}), json!([[1, 2], {"x": [3]}, "s"]), json!({"k": {"k": {"k": [1, {"k": 2}]}}})];
                for d in &docs {
                    let j = J::from_value(d);
                    for l in j.all_locs() {
                        if !mine() {
                            continue;
                        }
                        cases += 1;
                        let p = npath::render(&l);
                        let mut model = j.clone();
                        *model.at_mut(&l).unwrap() = J::Arr(vec![J::int(7), J::Obj(vec![("n".into(), J::Null)])]);
                        let mut real = d.clone();
                        match real.reference_mut(p.clone()) {
                            Some(slot) => *slot = json!([7, {"n": null}]),
                            None => return Err(format!("reference_mut({}) is None", p)),
                        }
                        if J::from_value(&real).to_text() != J::from_value(&model.to_value()).to_text() {
                            return Err(format!("write through {} changed the wrong part", p));
                        }
                        if d.reference(p.clone()).map(|r| r as *const Value) != Some(value_at(d, &l) as *const Value) {
                            return Err(format!("reference({}) is not that node", p));
                        }
                    }
                }
                Ok(())
            }
            "C12" => {
                // threads share one parsed query and one document
                let doc = Arc::new(json!({"s": ["ab", "xabx", "a"], "a": [1, 2, {"b": [3, {"a": 4}]}], "k": 1}));
                let qs = ["$.s[?match(@,'ab')]", "$.s[?search(@,'ab')]", "$..a", "$.a[?@ > $.k]", "$..[?@.b]", "$.a[::-1]"];
                for q in qs {
                    if !mine() {
                        continue;
                    }
                    let jq = Arc::new(libapi::parse(q).map_err(|e| e)?.map_err(|e| e)?);
                    let base: Vec<String> = match libapi::process(&jq, &doc) {
                        LibOutcome::Ok(ns) => ns.into_iter().map(|n| n.1).collect(),
                        o => return Err(o.brief()),
                    };
                    let hs: Vec<_> = (0..4)
                        .map(|_| {
                            let (jq, doc, base) = (jq.clone(), doc.clone(), base.clone());
                            std::thread::spawn(move || {
                                for _ in 0..3 {
                                    match libapi::process(&jq, &doc) {
                                        LibOutcome::Ok(ns) => {
                                            if ns.into_iter().map(|n| n.1).collect::<Vec<_>>() != base {
                                                return Err("result differs under concurrency".to_string());
                                            }
                                        }
                                        o => return Err(o.brief()),
                                    }
                                }
                                Ok(())
                            })
                        })
                        .collect();
                    for h in hs {
                        cases += 3;
                        h.join().map_err(|_| "thread panicked".to_string())??;
                    }
                }
                Ok(())
            }
            _ => Err(format!("no shard for {}", prop)),
        }
    })();
    match res {
        Ok(()) => {
            println!("SHARD-OK {}", cases);
            0
        }
        Err(e) => {
            println!("SHARD-VIOLATION {}", e);
            1
        }
    }
}

fn value_at<'a>(v: &'a Value, l: &[Step]) -> &'a Value {
    let mut cur = v;
    for s in l {
        cur = match (cur, s) {
            (Value::Array(a), Step::Idx(i)) => &a[*i],
            (Value::Object(o), Step::Key(k)) => &o[k.as_str()],
            _ => panic!("location not in value"),
        };
    }
    cur
}
