//! Boundary between the monitors and the library under test: every call goes through here,
//! wrapped in catch_unwind, with results mapped to node addresses.

use jsonpath_rust::parser::model::JpQuery;
use jsonpath_rust::parser::parse_json_path;
use jsonpath_rust::query::js_path_process;
use jsonpath_rust::JsonPath;
use oracle::json::{Loc, Step, J};
use serde_json::Value;
use std::collections::HashMap;
use std::panic::{catch_unwind, AssertUnwindSafe};

#[derive(Debug, Clone, PartialEq)]
pub enum LibOutcome {
    /// (address of the returned &Value, reported path)
    Ok(Vec<(usize, String)>),
    Err(String),
    Panic(String),
}

impl LibOutcome {
    pub fn brief(&self) -> String {
        match self {
            LibOutcome::Ok(v) => format!("Ok({} nodes)", v.len()),
            LibOutcome::Err(e) => format!("Err({})", e.chars().take(120).collect::<String>()),
            LibOutcome::Panic(p) => format!("Panic({})", p.chars().take(200).collect::<String>()),
        }
    }
}

pub fn addr(v: &Value) -> usize {
    v as *const Value as usize
}

pub fn panic_msg(e: Box<dyn std::any::Any + Send>) -> String {
    if let Some(s) = e.downcast_ref::<&str>() {
        s.to_string()
    } else if let Some(s) = e.downcast_ref::<String>() {
        s.clone()
    } else {
        "non-string panic payload".to_string()
    }
}

thread_local! {
    pub static LAST_PANIC_LOC: std::cell::RefCell<String> = std::cell::RefCell::new(String::new());
}

/// quiet panic hook that records the location (file:line) of the last panic per thread
pub fn install_panic_hook() {
    std::panic::set_hook(Box::new(|info| {
        let loc = info.location().map(|l| format!("{}:{}", l.file(), l.line())).unwrap_or_default();
        LAST_PANIC_LOC.with(|l| *l.borrow_mut() = loc);
    }));
}

pub fn last_panic_loc() -> String {
    LAST_PANIC_LOC.with(|l| l.borrow().clone())
}

pub fn query_with_path(q: &str, v: &Value) -> LibOutcome {
    match catch_unwind(AssertUnwindSafe(|| v.query_with_path(q))) {
        Ok(Ok(rs)) => LibOutcome::Ok(rs.into_iter().map(|r| (addr(r.clone().val()), r.path())).collect()),
        Ok(Err(e)) => LibOutcome::Err(e.to_string()),
        Err(p) => LibOutcome::Panic(format!("{} at {}", panic_msg(p), last_panic_loc())),
    }
}

pub fn query_vals(q: &str, v: &Value) -> Result<Result<Vec<usize>, String>, String> {
    match catch_unwind(AssertUnwindSafe(|| v.query(q))) {
        Ok(Ok(rs)) => Ok(Ok(rs.into_iter().map(addr).collect())),
        Ok(Err(e)) => Ok(Err(e.to_string())),
        Err(p) => Err(format!("{} at {}", panic_msg(p), last_panic_loc())),
    }
}

pub fn query_paths(q: &str, v: &Value) -> Result<Result<Vec<String>, String>, String> {
    match catch_unwind(AssertUnwindSafe(|| v.query_only_path(q))) {
        Ok(Ok(rs)) => Ok(Ok(rs)),
        Ok(Err(e)) => Ok(Err(e.to_string())),
        Err(p) => Err(format!("{} at {}", panic_msg(p), last_panic_loc())),
    }
}

pub fn parse(q: &str) -> Result<Result<JpQuery, String>, String> {
    match catch_unwind(AssertUnwindSafe(|| parse_json_path(q))) {
        Ok(Ok(j)) => Ok(Ok(j)),
        Ok(Err(e)) => Ok(Err(e.to_string())),
        Err(p) => Err(format!("{} at {}", panic_msg(p), last_panic_loc())),
    }
}

/// does the library accept the string? None = panic
pub fn accepts(q: &str) -> Option<bool> {
    match parse(q) {
        Ok(Ok(_)) => Some(true),
        Ok(Err(_)) => Some(false),
        Err(_) => None,
    }
}

pub fn process(jq: &JpQuery, v: &Value) -> LibOutcome {
    match catch_unwind(AssertUnwindSafe(|| js_path_process(jq, v))) {
        Ok(Ok(rs)) => LibOutcome::Ok(rs.into_iter().map(|r| (addr(r.clone().val()), r.path())).collect()),
        Ok(Err(e)) => LibOutcome::Err(e.to_string()),
        Err(p) => LibOutcome::Panic(format!("{} at {}", panic_msg(p), last_panic_loc())),
    }
}

/// A document with everything the monitors need: the serde value at a stable address, the
/// oracle's view of it (members in the order serde_json enumerates them) and the address map
/// built by an independent walk through serde_json's own API.
pub struct Doc {
    pub value: Box<Value>,
    pub j: J,
    pub addrs: HashMap<usize, Loc>,
}

impl Doc {
    pub fn new(j: &J) -> Doc {
        Doc::from_value(j.to_value())
    }
    pub fn from_value(v: Value) -> Doc {
        let value = Box::new(v);
        let j = J::from_value(&value);
        let mut addrs = HashMap::new();
        fn walk(v: &Value, cur: &mut Loc, m: &mut HashMap<usize, Loc>) {
            m.insert(addr(v), cur.clone());
            match v {
                Value::Array(a) => {
                    for (i, c) in a.iter().enumerate() {
                        cur.push(Step::Idx(i));
                        walk(c, cur, m);
                        cur.pop();
                    }
                }
                Value::Object(o) => {
                    for (k, c) in o.iter() {
                        cur.push(Step::Key(k.clone()));
                        walk(c, cur, m);
                        cur.pop();
                    }
                }
                _ => {}
            }
        }
        walk(&value, &mut vec![], &mut addrs);
        Doc { value, j, addrs }
    }
    pub fn loc_of(&self, a: usize) -> Option<&Loc> {
        self.addrs.get(&a)
    }
    /// maps a library result to locations; None if some returned reference is not a node of
    /// this document (a copy, a temporary, a fabricated value)
    pub fn locs(&self, nodes: &[(usize, String)]) -> Option<Vec<Loc>> {
        nodes.iter().map(|(a, _)| self.addrs.get(a).cloned()).collect()
    }
    pub fn text(&self) -> String {
        self.j.to_text()
    }
}
