mod c01;
mod c03;
mod c04;
mod c05;
mod c06;
mod c08;
mod c09;
mod c10;
mod c11;
mod c12;
mod c13;
mod worker;
mod c14;
mod c15;
mod hookutil;
mod convert;
mod ctx;
mod findings;
mod judge;
mod libapi;
mod replay;
mod sanitize;
mod shard;
mod trace;

use ctx::{Ctx, Tier};

fn usage() -> ! {
    eprintln!("usage: vfmon check <C01..C15> <quick|thorough> | selftest | replay <file>");
    std::process::exit(2)
}

fn main() {
    let args: Vec<String> = std::env::args().collect();
    libapi::install_panic_hook();
    // everything runs on a big-stack thread: oracles and library recurse over nesting depth
    let h = std::thread::Builder::new().stack_size(1 << 30).spawn(move || real_main(args)).expect("spawn");
    let code = h.join().unwrap_or_else(|_| {
        eprintln!("HARNESS-ERROR main thread panicked: {}", libapi::last_panic_loc());
        2
    });
    std::process::exit(code);
}

fn selftest() -> Result<usize, String> {
    oracle::selftest::run()
}

fn real_main(args: Vec<String>) -> i32 {
    match args.get(1).map(|s| s.as_str()) {
        Some("selftest") => match selftest() {
            Ok(n) => {
                println!("selftest ok: {} oracle checks", n);
                0
            }
            Err(e) => {
                eprintln!("HARNESS-ERROR oracle self-test failed: {}", e);
                2
            }
        },
        Some("probe") => {
            let q = args.get(2).cloned().unwrap_or_default();
            let d: serde_json::Value = serde_json::from_str(args.get(3).map(|s| s.as_str()).unwrap_or("null")).expect("json");
            let doc = libapi::Doc::from_value(d);
            let p = oracle::parse::analyze(&q);
            println!("oracle class: {:?}", p.class);
            println!("library accepts: {:?}", libapi::accepts(&q));
            if let Some(ast) = &p.ast {
                match oracle::eval::eval_locs(ast, &doc.j, oracle::eval::Dev::default()) {
                    Ok((l, f, _)) => println!("reference: {:?} (u2={} u3={} u5={})", l.iter().map(|x| oracle::npath::render(x)).collect::<Vec<_>>(), f.u2, f.u3, f.u5),
                    Err(_) => println!("reference: out of budget"),
                }
            }
            match libapi::query_with_path(&q, &doc.value) {
                libapi::LibOutcome::Ok(ns) => {
                    println!("library paths: {:?}", ns.iter().map(|x| x.1.clone()).collect::<Vec<_>>());
                    println!("library nodes: {:?}", doc.locs(&ns).map(|ls| ls.iter().map(|x| oracle::npath::render(x)).collect::<Vec<_>>()));
                }
                o => println!("library: {}", o.brief()),
            }
            0
        }
        Some("replay") => replay::run(args.get(2).map(|s| s.as_str()).unwrap_or("")),
        Some("shard") => {
            let prop = args.get(2).cloned().unwrap_or_default();
            let i: usize = args.get(3).and_then(|s| s.parse().ok()).unwrap_or(0);
            let n: usize = args.get(4).and_then(|s| s.parse().ok()).unwrap_or(1);
            shard::run(&prop, i, n)
        }
        Some("worker") => {
            // worker <prop> <family> <tier> <from> <to>
            let prop = args.get(2).cloned().unwrap_or_default();
            let family = args.get(3).cloned().unwrap_or_default();
            let tier = if args.get(4).map(|s| s.as_str()) == Some("thorough") { Tier::Thorough } else { Tier::Quick };
            let from: usize = args.get(5).and_then(|s| s.parse().ok()).unwrap_or(0);
            let to: usize = args.get(6).and_then(|s| s.parse().ok()).unwrap_or(0);
            let armed = findings::Armed::from_env();
            match prop.as_str() {
                "C11" => worker::child_loop(&c11::Set::new(tier, armed), from, to),
                "C08" => {
                    let seed = std::env::var("VERIF_SEED").ok().and_then(|s| s.trim().parse::<i64>().ok()).unwrap_or(0) as u64;
                    worker::child_loop(&*c08::worker_set(&family, tier, seed), from, to)
                }
                "C12" => {
                    let seed = std::env::var("VERIF_SEED").ok().and_then(|s| s.trim().parse::<i64>().ok()).unwrap_or(0) as u64;
                    if family == "cold" {
                        worker::child_loop(&c12::Cold { rounds: if tier == Tier::Thorough { 400 } else { 40 } }, from, to)
                    } else {
                        worker::child_loop(&c12::Pairs::new(tier, seed), from, to)
                    }
                }
                _ => {
                    let _ = family;
                    eprintln!("unknown worker set");
                    2
                }
            }
        }
        Some("check") => {
            let prop = args.get(2).cloned().unwrap_or_else(|| usage());
            let tier = match args.get(3).map(|s| s.as_str()) {
                Some("thorough") => Tier::Thorough,
                Some("quick") | None => Tier::Quick,
                _ => usage(),
            };
            if let Err(e) = selftest() {
                eprintln!("HARNESS-ERROR oracle self-test failed: {}", e);
                return 2;
            }
            let ctx = Ctx::new(&prop, tier);
            let r = match prop.as_str() {
                "C01" => c01::run(&ctx, false),
                "C02" => c01::run(&ctx, true),
                "C03" => c03::run(&ctx),
                "C04" => c04::run(&ctx),
                "C05" => c05::run(&ctx),
                "C06" => c06::run(&ctx, false),
                "C07" => c06::run(&ctx, true),
                "C08" => c08::run(&ctx),
                "C09" => c09::run(&ctx),
                "C10" => c10::run(&ctx),
                "C11" => c11::run(&ctx),
                "C12" => c12::run(&ctx),
                "C13" => c13::run(&ctx),
                "C14" => c14::run(&ctx),
                "C15" => c15::run(&ctx),
                _ => Err(format!("no check for {}", prop)),
            };
            match r {
                Ok(mut ev) => {
                    if tier == Tier::Thorough && std::env::var("VERIF_NO_SANITIZERS").is_err() {
                        let runs = sanitize::thorough(&ctx, &prop);
                        if !runs.is_empty() {
                            ev.set("sanitizer_runs", serde_json::Value::Array(runs));
                        }
                        ev.set("anchor_line_coverage", sanitize::anchor_coverage(&ctx, &prop));
                    }
                    ctx.finish(ev)
                }
                Err(e) => {
                    eprintln!("HARNESS-ERROR {}", e);
                    2
                }
            }
        }
        _ => usage(),
    }
}
