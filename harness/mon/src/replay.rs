//! `./vf replay <file>`: re-executes the single case of a replay file against the current tree
//! and prints the comparison. Exit 1 (with a VIOLATION line) if it still fails, 0 if it holds now.

use crate::libapi::{self, Doc, LibOutcome};
use jsonpath_rust::query::queryable::Queryable;
use oracle::eval::{eval_locs, Dev};
use oracle::npath;
use oracle::parse::analyze;
use serde_json::Value;

pub fn run(path: &str) -> i32 {
    let text = match std::fs::read_to_string(path) {
        Ok(t) => t,
        Err(e) => {
            eprintln!("HARNESS-ERROR cannot read {}: {}", path, e);
            return 2;
        }
    };
    let v: Value = match serde_json::from_str(&text) {
        Ok(v) => v,
        Err(e) => {
            eprintln!("HARNESS-ERROR {} is not JSON: {}", path, e);
            return 2;
        }
    };
    let prop = v["property"].as_str().unwrap_or("?");
    println!("replay of {} ({}), recorded: {}", path, prop, v["what"].as_str().unwrap_or(""));
    let kind = v["kind"].as_str().unwrap_or("");
    let still_fails: Option<bool> = match kind {
        "query" | "crash" if v.get("query").is_some() => {
            let q = v["query"].as_str().unwrap_or("");
            let doc = Doc::from_value(v.get("document").cloned().unwrap_or(Value::Null));
            let p = analyze(q);
            println!("query: {}", q);
            println!("oracle class: {:?}", p.class);
            let lib = libapi::query_with_path(q, &doc.value);
            let mut fails = None;
            match (&p.ast, &lib) {
                (Some(ast), LibOutcome::Ok(ns)) => {
                    if let Ok((want, _, _)) = eval_locs(ast, &doc.j, Dev::default()) {
                        let want_p: Vec<String> = want.iter().map(|l| npath::render(l)).collect();
                        let got_nodes: Option<Vec<String>> = doc.locs(ns).map(|ls| ls.iter().map(|l| npath::render(l)).collect());
                        let got_paths: Vec<String> = ns.iter().map(|n| n.1.clone()).collect();
                        println!("expected (RFC 9535): {:?}", want_p);
                        println!("observed nodes     : {:?}", got_nodes);
                        println!("observed paths     : {:?}", got_paths);
                        fails = Some(got_nodes.as_ref() != Some(&want_p) || got_paths != want_p);
                    }
                }
                (_, o) => {
                    println!("library: {}", o.brief());
                    fails = Some(matches!(o, LibOutcome::Panic(_)) || (matches!(p.class, oracle::parse::Class::Valid) && matches!(o, LibOutcome::Err(_))));
                }
            }
            fails
        }
        "accept" => {
            let s = v["string"].as_str().unwrap_or("");
            let want = v["expected"].as_str() == Some("accept");
            let got = libapi::accepts(s);
            println!("string: {:?}\noracle class: {:?}\nexpected: {}\nlibrary accepts: {:?}", s, analyze(s).class, if want { "accept" } else { "reject" }, got);
            Some(got != Some(want))
        }
        "spelling" => {
            let doc = Doc::from_value(v.get("document").cloned().unwrap_or(Value::Null));
            let a = libapi::query_with_path(v["base"].as_str().unwrap_or(""), &doc.value);
            let b = libapi::query_with_path(v["variant"].as_str().unwrap_or(""), &doc.value);
            println!("canonical {} -> {}\nvariant   {} -> {}", v["base"], a.brief(), v["variant"], b.brief());
            let addrs = |o: &LibOutcome| match o {
                LibOutcome::Ok(ns) => Some(ns.iter().map(|n| n.0).collect::<Vec<_>>()),
                _ => None,
            };
            Some(addrs(&a) != addrs(&b) || addrs(&a).is_none())
        }
        "reference" => {
            let doc = Doc::from_value(v.get("document").cloned().unwrap_or(Value::Null));
            let p = v["detail"]["path"].as_str().unwrap_or("").to_string();
            let got = doc.value.reference(p.clone()).map(|r| doc.loc_of(libapi::addr(r)).map(|l| npath::render(l)).unwrap_or_else(|| "<foreign>".into()));
            let want = npath::parse(&p).filter(|l| doc.j.at(l).is_some()).map(|l| npath::render(&l));
            println!("reference({:?}) -> {:?}; the location {}", p, got, if want.is_some() { "exists" } else { "does not exist" });
            Some(got != want)
        }
        other => {
            println!("replay files of kind {:?} describe a multi-step case (history, schedule, ladder, law); re-run the check itself to reproduce: ./vf check {} quick", other, prop);
            println!("{}", serde_json::to_string_pretty(&v).unwrap_or_default().chars().take(3000).collect::<String>());
            None
        }
    };
    match still_fails {
        Some(true) => {
            println!("VIOLATION property={} replay={}", prop, path);
            1
        }
        Some(false) => {
            println!("holds on the current tree");
            0
        }
        None => 0,
    }
}
