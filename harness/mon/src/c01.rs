//! C01 (selected nodes = RFC nodelist, borrows) and C02 (document order, duplicates preserved).
//! One workload, two judgements: C01 compares multisets of locations found by address, C02 the
//! sequence (canonical fast path, then the permissive trace checker over H1 segment events).

use crate::ctx::{par_run, Acc, Ctx, Evidence, Tier};
use crate::findings::{arm, Armed};
use crate::judge::{self, judge_query, Verdict, NODES, ORDER};
use crate::libapi::{Doc, LibOutcome};
use crate::trace::{check_segments, with_events, TraceErr, TraceStats};
use oracle::ast::*;
use oracle::gen;
use oracle::json::J;
use oracle::parse::analyze;
use oracle::render::{render, Spelling};
use oracle::rng::Rng;
use serde_json::json;

pub struct Workload {
    pub docs: Vec<Doc>,
    /// (query text, index of doc or usize::MAX for "all docs")
    pub queries: Vec<Query>,
}

fn e1_queries(tier: Tier, rng: &mut Rng) -> Vec<Query> {
    let pool = gen::selector_pool();
    let mut segs: Vec<Segment> = vec![];
    for s in &pool {
        segs.push(Segment::child(s.clone()));
        segs.push(Segment::desc(s.clone()));
    }
    // unions of two selectors (all ordered pairs from a sub-pool) - child and descendant
    let sub = [0usize, 2, 4, 5, 6, 8, 11, 12];
    for &a in &sub {
        for &b in &sub {
            segs.push(Segment { descendant: false, selectors: vec![pool[a].clone(), pool[b].clone()] });
            if (a + b) % 3 == 0 {
                segs.push(Segment { descendant: true, selectors: vec![pool[a].clone(), pool[b].clone()] });
            }
        }
    }
    let mut qs = vec![Query::root(vec![])];
    for s in &segs {
        qs.push(Query::root(vec![s.clone()]));
    }
    let singles: Vec<Segment> = segs.iter().filter(|s| s.selectors.len() == 1).cloned().collect();
    for a in &singles {
        for b in &segs {
            qs.push(Query::root(vec![a.clone(), b.clone()]));
        }
    }
    if tier == Tier::Thorough {
        // three segments, sampled
        for _ in 0..20000 {
            qs.push(Query::root(vec![rng.pick(&singles).clone(), rng.pick(&segs).clone(), rng.pick(&segs).clone()]));
        }
    }
    qs
}

/// order-stress family (DESIGN 4/C02)
fn order_stress() -> Vec<Query> {
    let texts = [
        "$[*]['a','b']", "$[*][0,1]", "$..[0,1]", "$..['a','b']", "$[0,0]", "$[*,*]", "$[::-1,0]", "$..[::-1]", "$..[::-2]", "$[*][::-1]", "$..[*]", "$..*", "$[*][*]", "$[*]..[0]", "$..[?@.a]",
        "$[?@.a, ?@.b]", "$[*][?@>0]", "$..[1:,0]", "$[1:,:1]", "$.*.*", "$..a..b", "$..[*]..[0]", "$['a','a']", "$[0:3,2:5]", "$..[-1,0]", "$[*]..a", "$..[?@[0]]", "$[::2,1::2]", "$..[*,0]", "$[*]['b','a']",
        "$[?search('abc', @)]", "$[?match('a', @)]", "$..[?match('ab', @)]", "$[?search($[3], @)]", "$[?match('x', @.a) || search('abc', @)]", "$[?length(@) == length('ab')]", "$[?$[0] == '']", "$[?$[1] == 'a' || @ == 3]", "$[?count($[*]) > 20]", "$[?value($[0]) == '' && @ == null]",
        "$[0,1,2]", "$['c','a','b']", "$[0,1,2,3]", "$[0,1,1]", "$[*,0,1]", "$..[0,1,2]", "$[2,0,1,0]", "$['b','a','c','a']", "$[1:,0,::-1]", "$[*]..a", "$[0:3]..[0]", "$[2,0]..[0]", "$..a..b", "$[*]..[0]",
        "$..a", "$..b", "$..['a']", "$..[0]", "$..[-1]", "$.a..a", "$..a.a", "$..*..*", "$[*,0]", "$[0,*]",
    ];
    texts
        .iter()
        .map(|t| {
            let p = analyze(t);
            p.ast.unwrap_or_else(|| panic!("order-stress query does not parse in the oracle: {}", t))
        })
        .collect()
}

/// E3: every selector kind against every JSON type at the root and one level below
fn wrong_kind_docs() -> Vec<J> {
    let mut v = vec![];
    let kinds = vec![
        J::Null,
        J::Bool(true),
        J::int(3),
        J::float(2.5),
        J::str("ab"),
        J::str("0"),
        J::Arr(vec![]),
        J::Arr(vec![J::int(1), J::int(2), J::int(3)]),
        J::Obj(vec![]),
        J::Obj(vec![("a".into(), J::int(1)), ("b".into(), J::int(2))]),
        J::Obj(vec![("0".into(), J::int(1)), ("1".into(), J::int(2)), ("-1".into(), J::int(3))]),
    ];
    for k in &kinds {
        v.push(k.clone());
        v.push(J::Obj(vec![("a".into(), k.clone()), ("b".into(), k.clone())]));
        v.push(J::Arr(vec![k.clone(), k.clone()]));
    }
    v
}

pub fn run(ctx: &Ctx, order: bool) -> Result<Evidence, String> {
    let armed: Armed = arm(ctx, &|_| None)?;
    let aspects = if order { ORDER } else { NODES };
    let mut rng = Rng::stream(ctx.seed, 1);

    // documents
    let leaves = gen::small_leaves();
    let keys = ["a", "b", "c"];
    let small = gen::enum_docs_upto(ctx.tier.pick(3, 4), &leaves, &keys);
    let n_small = small.len();
    let mut docs: Vec<Doc> = small.iter().map(Doc::new).collect();
    docs.extend(gen::curated_docs().iter().map(Doc::new));
    docs.extend(wrong_kind_docs().iter().map(Doc::new));
    // size-boundary documents get their own product with the boundary queries (below)
    let bdocs: Vec<Doc> = gen::boundary_docs().iter().map(Doc::new).collect();
    let n_fixed_docs = docs.len();
    let cfg = gen::DocCfg::default();
    let n_rand_docs = ctx.tier.pick(600, 6000);
    for _ in 0..n_rand_docs {
        docs.push(Doc::new(&gen::random_doc(&mut rng, &cfg)));
    }

    // queries: (ast, canonical text)
    let mut e1 = e1_queries(ctx.tier, &mut rng);
    e1.extend(order_stress());
    let e1_texts: Vec<(Query, String)> = e1.into_iter().map(|q| { let t = render(&q, &mut Spelling::canonical()); (q, t) }).collect();
    let qcfg = gen::QueryCfg::default();
    // names that need no escape or only \\ and \/ (decoded by the library), incl. non-ASCII
    let mut qcfg_h = gen::QueryCfg::default();
    qcfg_h.names = ["a\\b", "a/b", "\\", "/", "x y", "\u{e9}", "a.b", "[0]", "$", "@", "*", "0", "-1", "", "a", "\u{1f600}", "gr\u{f6}\u{df}e\\breite", "\u{446}\u{435}\u{43d}\u{430}/\u{448}\u{442}", "\u{e9}\\", "/\u{1f600}", "a\u{7f}b", "line\u{85}break", "\u{9f}", "\u{feff}x", "\u{fffe}", "\u{ffff}", "\u{2028}", "\u{ad}"].iter().map(|s| s.to_string()).collect();
    let mut dcfg_h = gen::DocCfg::default();
    dcfg_h.keys = qcfg_h.names.clone();
    let hdocs_rand: Vec<Doc> = (0..ctx.tier.pick(150, 1500)).map(|_| Doc::new(&gen::random_doc(&mut rng, &dcfg_h))).collect();

    // family A: e1 queries x fixed docs (exhaustive product)
    let n_a = e1_texts.len() * n_fixed_docs;
    // family B: random queries x random docs
    let n_b = ctx.tier.pick(150_000, 3_000_000);
    // family C: boundary queries (and a sample of the E1 family) x size-boundary documents
    let mut bq: Vec<(Query, String)> = gen::boundary_queries().iter().map(|t| (analyze(t).ast.unwrap_or_else(|| panic!("boundary query does not parse: {}", t)), t.to_string())).collect();
    for k in 0..e1_texts.len().min(400) {
        bq.push(e1_texts[(k * 7919) % e1_texts.len()].clone());
    }
    for q in gen::long_union_queries(ctx.seed) {
        let t = render(&q, &mut Spelling::canonical());
        bq.push((q, t));
    }
    let n_c0 = bq.len() * bdocs.len();
    let hdocs: Vec<Doc> = gen::huge_docs().iter().map(Doc::new).collect();
    let hq: Vec<(Query, String)> = gen::huge_queries().iter().map(|t| (analyze(t).ast.unwrap_or_else(|| panic!("huge query does not parse: {}", t)), t.to_string())).collect();
    let n_c = n_c0 + hq.len() * hdocs.len();
    // family D: filters over easily confused queries and one-of / none-of chains (shared with C05)
    let mut xcases: Vec<(Query, String, Doc)> = vec![];
    {
        let mut xr = Rng::stream(ctx.seed, 4242);
        let mut raw = crate::c05::confusable_cases(&mut xr, 12);
        let keep_every = ctx.tier.pick(4, 1);
        raw = raw.into_iter().enumerate().filter(|(k, _)| *k < 1400 || k % keep_every == 0).map(|(_, c)| c).collect();
        raw.extend(crate::c05::in_list_cases(&mut xr, ctx.tier.pick(1500, 30_000)));
        for (t, d) in raw {
            let ast = analyze(&t).ast.unwrap_or_else(|| panic!("family D query does not parse: {}", t));
            xcases.push((ast, t, Doc::new(&d)));
        }
    }
    // unions of two slices with every combination of small bounds over arrays shorter than,
    // as long as and longer than the bounds reach (child form on two arrays, descendant form on a
    // nested document; a union with an index on either side for a sample)
    {
        let arr = |n: i64| J::Arr((0..n).map(J::int).collect());
        let small_j = [arr(3), arr(6)];
        let nested_j = J::Obj(vec![("k".into(), arr(5)), ("m".into(), J::Arr(vec![arr(7), arr(1), J::Obj(vec![("k".into(), arr(4))])]))]);
        for (n, u) in gen::slice_pair_queries().iter().enumerate() {
            let mut texts = vec![format!("${}", u), format!("$..{}", u)];
            if n % 5 == 0 {
                texts.push(format!("$..[4,{},0]", &u[1..u.len() - 1]));
            }
            for (k, t) in texts.iter().enumerate() {
                if let Some(ast) = analyze(t).ast {
                    if k == 0 {
                        for d in &small_j {
                            xcases.push((ast.clone(), t.clone(), Doc::new(d)));
                        }
                    } else {
                        xcases.push((ast, t.clone(), Doc::new(&nested_j)));
                    }
                }
            }
        }
    }
    let n_x = xcases.len();
    let seed = ctx.seed;
    let trace_every = 7usize;

    let work = |i: usize, acc: &mut Acc| {
        let (ast, text, doc): (Query, String, &Doc);
        let parsed;
        if i >= n_a + n_b + n_c {
            let (q, t, d) = &xcases[i - n_a - n_b - n_c];
            ast = q.clone();
            text = t.clone();
            doc = d;
            acc.count("family_confusable_and_in_list_filters", 1);
        } else if i < n_a {
            let (q, t) = &e1_texts[i / n_fixed_docs];
            ast = q.clone();
            text = t.clone();
            doc = &docs[i % n_fixed_docs];
            acc.count("family_exhaustive", 1);
        } else if i >= n_a + n_b {
            let k = i - n_a - n_b;
            if k >= n_c0 {
                let k = k - n_c0;
                let (q, t) = &hq[k / hdocs.len()];
                ast = q.clone();
                text = t.clone();
                doc = &hdocs[k % hdocs.len()];
            } else {
                let (q, t) = &bq[k / bdocs.len()];
                ast = q.clone();
                text = t.clone();
                doc = &bdocs[k % bdocs.len()];
            }
            acc.count("family_size_boundaries", 1);
        } else {
            let k = i - n_a;
            let mut r = Rng::stream(seed, 1000 + k as u64);
            let hostile = k % 5 == 4;
            ast = gen::random_query(&mut r, if hostile { &qcfg_h } else { &qcfg });
            let mut sp = if hostile || r.chance(3, 4) { Spelling::canonical() } else { Spelling::random(&mut r) };
            if r.chance(1, 2) {
                sp.names = oracle::render::NameStyle::Shorthand;
            }
            sp.filter_parens = false;
            sp.extra_parens = 0;
            if order {
                // order does not depend on spelling; keep C02 free of the escape-decoding findings
                sp.esc = oracle::render::EscStyle::Minimal;
            }
            text = render(&ast, &mut sp);
            doc = if hostile { &hdocs_rand[r.below(hdocs_rand.len() as u64) as usize] } else { &docs[n_fixed_docs + (r.below(n_rand_docs as u64) as usize)] };
            acc.count(if hostile { "family_random_hostile_names" } else { "family_random" }, 1);
        }
        // multi-descendant queries on very deep or very large documents are polynomially
        // expensive for library and reference alike; the size-boundary family keeps them out
        if i >= n_a + n_b && (doc.j.depth() > 70 || doc.j.node_count() > 3000) && ast.segments.iter().filter(|s| s.descendant).count() + ast.segments.len() > 3 {
            return;
        }
        parsed = analyze(&text);
        if parsed.ast.as_ref() != Some(&ast) {
            // the renderer and oracle (b) disagree: oracle defect, not a library verdict
            acc.count("HARNESS_render_parse_mismatch", 1);
            if std::env::var("VERIF_DEBUG").is_ok() {
                eprintln!("MISMATCH {} -> {:?}", text, parsed.class);
            }
            return;
        }
        acc.evaluations += 1;
        let j = judge_query(&text, &parsed, doc, aspects, &armed);
        let mut verdict = j.verdict.clone();
        let lib_addrs: Option<Vec<usize>> = match &j.lib {
            LibOutcome::Ok(ns) => Some(ns.iter().map(|x| x.0).collect()),
            _ => None,
        };
        // trace checks through the hooks: always when the canonical order comparison failed,
        // and on a sample of all other cases
        let order_failed = matches!(&verdict, Verdict::Violated(m) if m.starts_with("result order")) || matches!(&verdict, Verdict::Known(_));
        if lib_addrs.is_some() && (order_failed || (i % trace_every == 0 && verdict == Verdict::Held)) {
            let (out, events) = with_events(|| crate::libapi::query_with_path(&text, &doc.value));
            let addrs: Vec<usize> = match &out {
                LibOutcome::Ok(ns) => ns.iter().map(|x| x.0).collect(),
                _ => vec![],
            };
            if Some(&addrs) != lib_addrs.as_ref() {
                verdict = Verdict::Violated("evaluation with observation hooks on returned a different result than with hooks idle".into());
            } else {
                let mut st = TraceStats::default();
                let r = check_segments(&ast, doc, &events, &addrs, order, armed.has("union"), &mut st);
                acc.count("h1_segments_in_known_selector_major_order", st.known_union_segments as u64);
                acc.count("h1_segment_events", st.segment_events as u64);
                acc.count("h1_top_level_events", st.top_level as u64);
                acc.count("h1_local_selection_checks", st.local_checks as u64);
                acc.count("h1_order_blocks_checked", st.permissive_blocks as u64);
                acc.count("h1_noncanonical_orders_accepted", st.noncanonical_accepted as u64);
                match r {
                    Ok(()) => {
                        if st.known_union_segments > 0 && (verdict == Verdict::Held || (order_failed && matches!(verdict, Verdict::Violated(_)))) {
                            // every deviation from node-major order is the armed union finding
                            verdict = Verdict::Known(armed.id_of("union"));
                        }
                        if order_failed && matches!(verdict, Verdict::Violated(_)) && st.known_union_segments == 0 {
                            // not canonical but within what RFC 9535 allows for descendants
                            verdict = Verdict::Held;
                            acc.count("permissive_order_accepted", 1);
                        }
                    }
                    Err(TraceErr::Order(m)) => {
                        if !matches!(verdict, Verdict::Known(_)) && order {
                            verdict = Verdict::Violated(format!("trace: {}", m));
                        }
                    }
                    Err(TraceErr::Selection(m)) => {
                        if verdict == Verdict::Held && !order {
                            let t = judge::triggers(&parsed);
                            let known = [(t.name_esc_other, "name_esc_other"), (t.lit_esc, "lit_esc"), (t.lit_quote_edge, "lit_quote_edge")].iter().find(|(c, n)| *c && armed.has(n)).map(|(_, n)| armed.id_of(n));
                            verdict = match known {
                                Some(id) => Verdict::Known(id),
                                None => Verdict::Violated(format!("trace: a segment step selected wrong nodes although the final result agrees: {}", m)),
                            };
                        }
                    }
                    Err(TraceErr::Foreign) => {
                        if verdict == Verdict::Held {
                            verdict = Verdict::Violated("trace: an intermediate node is not a node of the document".into());
                        }
                    }
                    Err(TraceErr::Chain(m)) => {
                        if verdict == Verdict::Held {
                            acc.count("trace_chain_anomalies", 1);
                            let _ = m;
                        }
                    }
                }
            }
        }
        // evidence: what was exercised
        for s in &ast.segments {
            for sel in &s.selectors {
                let kind = match sel {
                    Selector::Name(_) => "name",
                    Selector::Wildcard => "wildcard",
                    Selector::Index(_) => "index",
                    Selector::Slice(..) => "slice",
                    Selector::Filter(_) => "filter",
                };
                acc.mark("segment_selector_kinds", format!("{}{}{}", if s.descendant { "desc:" } else { "child:" }, kind, if s.selectors.len() > 1 { ":union" } else { "" }));
            }
        }
        let nontrivial = if order {
            // >= 2 distinct nodes from an order-sensitive query
            let mut d = j.ref_locs.clone();
            d.sort();
            d.dedup();
            d.len() >= 2
        } else {
            !j.ref_locs.is_empty()
        };
        if nontrivial {
            acc.nontrivial(format!("{}\u{0}{}", text, doc.text()).as_bytes());
            acc.sample(json!({"query": text, "document_nodes": doc.j.node_count(), "expected": j.ref_locs.iter().take(6).map(|l| oracle::npath::render(l)).collect::<Vec<_>>(), "verdict": format!("{:?}", verdict).chars().take(60).collect::<String>()}));
        }
        match verdict {
            Verdict::Held => acc.count("held", 1),
            Verdict::Known(id) => {
                acc.count("known", 1);
                ctx.add_known(&id, 1);
            }
            Verdict::Skipped(z) => ctx.add_skipped(z, 1),
            Verdict::Inconclusive(w) => ctx.add_inconclusive(&w, 1),
            Verdict::Violated(m) => ctx.violate(&m, judge::replay_json("query", &text, doc, &j)),
        }
    };
    let acc = par_run(ctx, n_a + n_b + n_c + n_x, work);
    if acc.counters.get("HARNESS_render_parse_mismatch").copied().unwrap_or(0) > 0 {
        return Err(format!("renderer and oracle parser disagree on {} generated queries", acc.counters["HARNESS_render_parse_mismatch"]));
    }
    let mut ev = Evidence::new(if order {
        "cases = (query, document): exhaustive product of the E1 query family (<=2 segments over a 16-selector pool, child+descendant, unions) and the order-stress family with all small documents (<= N nodes over 7 leaves, keys a,b,c) + curated + wrong-kind documents; plus seeded random queries x random documents; plus boundary queries x size-boundary documents (arrays/objects of 15..1000 members, strings of 0..1000 characters from many Unicode ranges, nests of depth 16..127, integers around 2^53 and the i64 limits); plus segments of 2..100 selectors (names, indices, mixed; out of order, with repeats) x wide documents; plus filters over queries that print alike and one-of / none-of chains (shared with C05). Non-trivial = distinct (query text, document) whose RFC result has >= 2 distinct nodes."
    } else {
        "cases = (query, document) as for C02 (incl. the size-boundary family). Non-trivial = distinct (query text, document) whose RFC result is non-empty. Nodes are identified by address -> location (independent walk), compared as multisets with the reference evaluator's nodelist."
    });
    ev.set("exhaustive", json!(false));
    ev.set("exhaustive_family", json!({"queries": e1_texts.len(), "documents": n_fixed_docs, "small_docs_max_nodes": ctx.tier.pick(3, 4), "small_docs": n_small, "product_enumerated_completely": true}));
    ev.set("random_documents", json!(n_rand_docs));
    ev.assume("reference evaluator (oracle c) transcribes RFC 9535 section 2; validated against the RFC's example tables at start-up");
    ev.assume("object member order = the order serde_json's map enumerates (sorted keys; no preserve_order feature)");
    ev.min_nontrivial = 1000;
    acc.into_evidence(&mut ev);
    Ok(ev)
}
