//! Thorough tier: the shard workloads (shard.rs) and a slice of the C08 bulk corpus re-run under
//! Miri, AddressSanitizer and ThreadSanitizer. The crate has no `unsafe`, so these runs watch the
//! dependencies' unsafe code on our inputs and guard against future unsafe / shared-state changes
//! (DESIGN section 3). A sanitizer report is a violation; a tool that cannot be built or times
//! out is recorded as inconclusive, never as held.

use crate::ctx::{verif_dir, Ctx};
use serde_json::{json, Value};
use std::process::{Command, Stdio};
use std::time::{Duration, Instant};

struct Out {
    code: Option<i32>,
    stdout: String,
    stderr: String,
    timed_out: bool,
}

fn run(mut cmd: Command, timeout: Duration) -> Out {
    cmd.stdin(Stdio::null()).stdout(Stdio::piped()).stderr(Stdio::piped());
    let start = Instant::now();
    let mut child = match cmd.spawn() {
        Ok(c) => c,
        Err(e) => return Out { code: None, stdout: String::new(), stderr: format!("spawn failed: {}", e), timed_out: false },
    };
    // read pipes in threads to avoid blocking on full buffers
    let mut so = child.stdout.take().unwrap();
    let mut se = child.stderr.take().unwrap();
    let h1 = std::thread::spawn(move || {
        let mut s = String::new();
        let _ = std::io::Read::read_to_string(&mut so, &mut s);
        s
    });
    let h2 = std::thread::spawn(move || {
        let mut s = String::new();
        let _ = std::io::Read::read_to_string(&mut se, &mut s);
        s
    });
    let mut timed_out = false;
    let code = loop {
        match child.try_wait() {
            Ok(Some(st)) => break st.code(),
            Ok(None) => {
                if start.elapsed() > timeout {
                    let _ = child.kill();
                    let _ = child.wait();
                    timed_out = true;
                    break None;
                }
                std::thread::sleep(Duration::from_millis(200));
            }
            Err(_) => break None,
        }
    };
    Out { code, stdout: h1.join().unwrap_or_default(), stderr: h2.join().unwrap_or_default(), timed_out }
}

fn cargo(target_sub: &str) -> Command {
    let mut c = Command::new("cargo");
    c.current_dir(verif_dir().join("harness"));
    c.env("CARGO_TARGET_DIR", verif_dir().join("target").join(target_sub));
    c.env("CARGO_NET_OFFLINE", "true");
    c
}

fn tail(s: &str, n: usize) -> String {
    let c: Vec<char> = s.chars().collect();
    c[c.len().saturating_sub(n)..].iter().collect()
}

/// Miri: n parallel interpreter processes, each one slice of the shard workload
fn miri(ctx: &Ctx, prop: &str, slices: usize) -> Value {
    // build once (first slice), then the rest in parallel
    let mk = |i: usize| {
        let mut c = cargo("miri");
        c.args(["+nightly", "miri", "run", "--offline", "-q", "-p", "mon", "--", "shard", prop, &i.to_string(), &slices.to_string()]);
        c.env("MIRIFLAGS", "-Zmiri-disable-isolation");
        c
    };
    let first = run(mk(0), Duration::from_secs(3600));
    let mut outs = vec![first];
    if outs[0].stdout.contains("SHARD-OK") {
        let hs: Vec<_> = (1..slices).map(|i| std::thread::spawn(move || i)).collect();
        let rest: Vec<Out> = std::thread::scope(|s| {
            let hs2: Vec<_> = hs.into_iter().map(|h| h.join().unwrap()).map(|i| s.spawn(move || run(mk(i), Duration::from_secs(3600)))).collect();
            hs2.into_iter().map(|h| h.join().unwrap()).collect()
        });
        outs.extend(rest);
    }
    summarize(ctx, prop, "miri", outs, &["Undefined Behavior", "error: unsupported operation", "data race"])
}

fn asan(ctx: &Ctx, prop: &str) -> Value {
    let mut b = cargo("asan");
    b.args(["+nightly", "build", "--offline", "-q", "--release", "-p", "mon", "--target", "x86_64-unknown-linux-gnu"]);
    b.env("RUSTFLAGS", "-Zsanitizer=address -Cforce-frame-pointers=yes");
    let built = run(b, Duration::from_secs(3600));
    if built.code != Some(0) {
        ctx.add_inconclusive("asan build failed", 1);
        return json!({"tool": "asan", "built": false, "note": tail(&built.stderr, 400)});
    }
    let exe = verif_dir().join("target/asan/x86_64-unknown-linux-gnu/release/vfmon");
    let mut outs = vec![];
    let mut c = Command::new(&exe);
    c.args(["shard", prop, "0", "1"]).env("ASAN_OPTIONS", "halt_on_error=1:abort_on_error=0:detect_leaks=0");
    outs.push(run(c, Duration::from_secs(1800)));
    if prop == "C08" {
        // a slice of the bulk corpus through every entry point, in-process (no rlimits: ASan
        // needs its shadow memory)
        for (from, to) in [(0usize, 1500usize), (20000, 21500)] {
            let mut c = Command::new(&exe);
            c.args(["worker", "C08", "bulk", "quick", &from.to_string(), &to.to_string()]).env("ASAN_OPTIONS", "halt_on_error=1:abort_on_error=0:detect_leaks=0").env("VERIF_SEED", (ctx.seed as i64).to_string());
            outs.push(run(c, Duration::from_secs(1800)));
        }
    }
    summarize(ctx, prop, "asan", outs, &["ERROR: AddressSanitizer"])
}

fn tsan(ctx: &Ctx, prop: &str, reps: usize) -> Value {
    let mut b = cargo("tsan");
    b.args(["+nightly", "build", "--offline", "-q", "--release", "-p", "mon", "-Zbuild-std", "--target", "x86_64-unknown-linux-gnu"]);
    b.env("RUSTFLAGS", "-Zsanitizer=thread");
    let built = run(b, Duration::from_secs(3600));
    if built.code != Some(0) {
        ctx.add_inconclusive("tsan build failed", 1);
        return json!({"tool": "tsan", "built": false, "note": tail(&built.stderr, 400)});
    }
    let exe = verif_dir().join("target/tsan/x86_64-unknown-linux-gnu/release/vfmon");
    let mut outs = vec![];
    for _ in 0..reps {
        let mut c = Command::new(&exe);
        c.args(["shard", prop, "0", "1"]).env("TSAN_OPTIONS", "halt_on_error=1");
        outs.push(run(c, Duration::from_secs(1800)));
    }
    summarize(ctx, prop, "tsan", outs, &["WARNING: ThreadSanitizer"])
}

fn summarize(ctx: &Ctx, prop: &str, tool: &str, outs: Vec<Out>, markers: &[&str]) -> Value {
    let mut cases = 0u64;
    let mut reports = 0u64;
    let mut inconclusive = 0u64;
    for o in &outs {
        let report = markers.iter().any(|m| o.stderr.contains(m) || o.stdout.contains(m));
        if report {
            reports += 1;
            ctx.violate(
                &format!("{} reports a defect while running the {} shard: {}", tool, prop, tail(&o.stderr, 600)),
                json!({"kind": "sanitizer", "tool": tool, "stderr_tail": tail(&o.stderr, 3000)}),
            );
            continue;
        }
        if let Some(l) = o.stdout.lines().find(|l| l.starts_with("SHARD-VIOLATION")) {
            reports += 1;
            ctx.violate(&format!("{} shard under {}: {}", prop, tool, l), json!({"kind": "sanitizer", "tool": tool, "line": l}));
            continue;
        }
        // worker-protocol output: E lines with violations
        for l in o.stdout.lines().filter(|l| l.starts_with("E ")) {
            if let Some(p) = l.splitn(3, ' ').nth(2) {
                if let Ok(Value::Array(vs)) = serde_json::from_str::<Value>(p) {
                    for v in vs {
                        reports += 1;
                        ctx.violate(&format!("[{} build] {}", tool, v["what"].as_str().unwrap_or("?")), v["replay"].clone());
                    }
                }
            }
        }
        if let Some(l) = o.stdout.lines().find(|l| l.starts_with("SHARD-OK")) {
            cases += l.split_whitespace().nth(1).and_then(|n| n.parse::<u64>().ok()).unwrap_or(0);
        } else if o.stdout.lines().any(|l| l.starts_with("S ")) {
            cases += o.stdout.lines().filter(|l| l.starts_with("E ")).count() as u64;
        } else if o.timed_out || o.code != Some(0) {
            inconclusive += 1;
            ctx.add_inconclusive(&format!("{} run did not complete", tool), 1);
        }
    }
    json!({"tool": tool, "built": true, "processes": outs.len(), "cases": cases, "reports": reports, "inconclusive_processes": inconclusive})
}

/// maps a line number of `file` at the pinned (root) commit of /repo to the working tree, using
/// the hunks of `git diff -U0 <root commit> -- file`
fn map_line(file: &str, old: u32) -> u32 {
    let root = Command::new("git").args(["-C", "/repo", "rev-list", "--max-parents=0", "HEAD"]).output().ok().map(|o| String::from_utf8_lossy(&o.stdout).trim().to_string()).unwrap_or_default();
    let out = Command::new("git").args(["-C", "/repo", "diff", "-U0", &root, "--", file]).output().ok().map(|o| String::from_utf8_lossy(&o.stdout).to_string()).unwrap_or_default();
    let mut offset: i64 = 0;
    for l in out.lines().filter(|l| l.starts_with("@@")) {
        // @@ -a,b +c,d @@
        let parts: Vec<&str> = l.split_whitespace().collect();
        if parts.len() < 3 {
            continue;
        }
        let p = |s: &str| -> (i64, i64) {
            let s = &s[1..];
            match s.split_once(',') {
                Some((a, b)) => (a.parse().unwrap_or(0), b.parse().unwrap_or(1)),
                None => (s.parse().unwrap_or(0), 1),
            }
        };
        let (a, b) = p(parts[1]);
        let (_c, d) = p(parts[2]);
        let old_end = if b == 0 { a } else { a + b - 1 };
        if old_end < old as i64 {
            offset += d - b;
        }
    }
    (old as i64 + offset).max(1) as u32
}

/// Line coverage of the property's anchor ranges in /repo/src under the property's own quick
/// workload (a monitor that never reached its anchors has not monitored the property).
pub fn anchor_coverage(ctx: &Ctx, prop: &str) -> Value {
    let vd = verif_dir();
    let mut b = cargo("cov");
    b.args(["+nightly", "build", "--offline", "-q", "--release", "-p", "mon"]);
    b.env("RUSTFLAGS", "-Cinstrument-coverage");
    // instrumented build scripts and proc macros would otherwise drop default_*.profraw files
    // into the directory of the crate being compiled (i.e. into /repo)
    let _ = std::fs::create_dir_all(vd.join("target/cov/buildprof"));
    b.env("LLVM_PROFILE_FILE", vd.join("target/cov/buildprof/b-%p-%m.profraw"));
    let built = run(b, Duration::from_secs(3600));
    if built.code != Some(0) {
        return json!({"tool": "llvm-cov", "built": false, "note": tail(&built.stderr, 300)});
    }
    let exe = vd.join("target/cov/release/vfmon");
    let scratch = vd.join("target/cov/scratch").join(prop);
    let prof = vd.join("target/cov/prof").join(prop);
    let _ = std::fs::remove_dir_all(&prof);
    let _ = std::fs::create_dir_all(&prof);
    let _ = std::fs::create_dir_all(&scratch);
    let _ = std::fs::copy(vd.join("known_findings.json"), scratch.join("known_findings.json"));
    let mut c = Command::new(&exe);
    c.args(["check", prop, "quick"]);
    c.env("VERIF_DIR", &scratch).env("VERIF_WORKER_EXE", &exe).env("VERIF_NO_SANITIZERS", "1").env("VERIF_SEED", (ctx.seed as i64).to_string());
    c.env("LLVM_PROFILE_FILE", prof.join("p-%p-%m.profraw"));
    let ran = run(c, Duration::from_secs(3600));
    // tools from the nightly sysroot
    let sysroot = Command::new("rustc").args(["+nightly", "--print", "sysroot"]).output().ok().map(|o| String::from_utf8_lossy(&o.stdout).trim().to_string()).unwrap_or_default();
    let bin = std::path::Path::new(&sysroot).join("lib/rustlib/x86_64-unknown-linux-gnu/bin");
    let raws: Vec<std::path::PathBuf> = std::fs::read_dir(&prof).map(|d| d.flatten().map(|e| e.path()).filter(|p| p.extension().map(|x| x == "profraw").unwrap_or(false)).collect()).unwrap_or_default();
    if raws.is_empty() {
        return json!({"tool": "llvm-cov", "built": true, "note": format!("no profile written (exit {:?})", ran.code)});
    }
    let merged = prof.join("merged.profdata");
    let mut m = Command::new(bin.join("llvm-profdata"));
    m.arg("merge").arg("-sparse").args(&raws).arg("-o").arg(&merged);
    let mo = run(m, Duration::from_secs(1800));
    if mo.code != Some(0) {
        return json!({"tool": "llvm-cov", "built": true, "note": format!("profdata merge failed: {}", tail(&mo.stderr, 200))});
    }
    let mut e = Command::new(bin.join("llvm-cov"));
    e.args(["export", "-format=lcov", "-instr-profile"]).arg(&merged).arg(&exe).arg("-ignore-filename-regex=(registry|rustc|verif/harness)");
    let eo = run(e, Duration::from_secs(1800));
    if eo.code != Some(0) {
        return json!({"tool": "llvm-cov", "built": true, "note": format!("llvm-cov export failed: {}", tail(&eo.stderr, 200))});
    }
    // lcov: SF:<file> ... DA:<line>,<count>
    let mut per_file: std::collections::HashMap<String, std::collections::BTreeMap<u32, u64>> = std::collections::HashMap::new();
    let mut cur = String::new();
    for l in eo.stdout.lines() {
        if let Some(f) = l.strip_prefix("SF:") {
            cur = f.to_string();
        } else if let Some(d) = l.strip_prefix("DA:") {
            let mut it = d.split(',');
            if let (Some(a), Some(b)) = (it.next(), it.next()) {
                if let (Ok(a), Ok(b)) = (a.parse::<u32>(), b.parse::<u64>()) {
                    let e = per_file.entry(cur.clone()).or_default().entry(a).or_insert(0);
                    *e = (*e).max(b);
                }
            }
        }
    }
    // anchors of this property
    let mut anchors: Vec<String> = vec![];
    if let Ok(t) = std::fs::read_to_string(vd.join("properties.jsonl")) {
        for line in t.lines() {
            if let Ok(p) = serde_json::from_str::<Value>(line) {
                if p["id"].as_str() == Some(prop) {
                    for mch in p["anchors"]["mechanism"].as_array().cloned().unwrap_or_default() {
                        if let Some(w) = mch["where"].as_str() {
                            anchors.push(w.to_string());
                        }
                    }
                }
            }
        }
    }
    let mut rows = vec![];
    let (mut tot, mut cov) = (0u64, 0u64);
    for a in &anchors {
        // forms: "src/x.rs:7-52", "src/x.rs:6-14 and src/y.rs:31-38", "src/x.rs:101-116 and 63-97", "src/x.rs:394 and 311-324"
        let mut file = String::new();
        for part in a.split(" and ") {
            for piece in part.split(", ") {
                let piece = piece.trim();
                let (f, range) = match piece.rsplit_once(':') {
                    Some((f, r)) if f.contains('/') => (f.to_string(), r.to_string()),
                    _ => (file.clone(), piece.to_string()),
                };
                file = f.clone();
                let (lo, hi) = match range.split_once('-') {
                    Some((l, h)) => (l.trim().parse::<u32>().unwrap_or(0), h.trim().parse::<u32>().unwrap_or(0)),
                    None => {
                        let v = range.trim().parse::<u32>().unwrap_or(0);
                        (v, v)
                    }
                };
                // the anchors give line numbers of the pinned commit: map them to the working tree
                let (lo, hi) = (map_line(&f, lo), map_line(&f, hi));
                let lines = per_file.iter().find(|(k, _)| k.ends_with(&f)).map(|(_, v)| v);
                let (mut n, mut c) = (0u64, 0u64);
                if let Some(lines) = lines {
                    for (_, cnt) in lines.range(lo..=hi) {
                        n += 1;
                        if *cnt > 0 {
                            c += 1;
                        }
                    }
                }
                tot += n;
                cov += c;
                rows.push(json!({"anchor": format!("{}:{}-{}", f, lo, hi), "instrumented_lines": n, "executed_lines": c}));
            }
        }
    }
    json!({"tool": "llvm-cov", "built": true, "workload": format!("{} quick under -Cinstrument-coverage (workers included)", prop), "note": "anchor ranges are given for the pinned commit and mapped to the working tree through git diff hunks (hook and fix: commits shift lines)", "anchor_ranges": rows, "instrumented_lines_in_anchors": tot, "executed_lines_in_anchors": cov})
}

/// the sanitizer runs that belong to a property's thorough tier
pub fn thorough(ctx: &Ctx, prop: &str) -> Vec<Value> {
    let mut v = vec![];
    match prop {
        "C08" => {
            v.push(asan(ctx, "C08"));
            v.push(miri(ctx, "C08", 8));
        }
        "C01" => v.push(miri(ctx, "C01", 8)),
        "C09" => v.push(miri(ctx, "C09", 8)),
        "C11" => {
            v.push(asan(ctx, "C11"));
            v.push(miri(ctx, "C11", 16));
        }
        "C12" => {
            v.push(tsan(ctx, "C12", 20));
            v.push(miri(ctx, "C12", 6));
        }
        _ => {}
    }
    v
}
