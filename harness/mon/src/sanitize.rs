//! Thorough tier: the shard workloads (shard.rs) and a slice of the C08 bulk corpus re-run under
//! Miri, AddressSanitizer and ThreadSanitizer. The crate has no `unsafe`, so these runs watch the
//! dependencies' unsafe code on our inputs and guard against future unsafe / shared-state changes
//! (DESIGN section 3). A sanitizer report is a violation; a tool that cannot be built or times
//! out is recorded as inconclusive, never as held.

use crate::ctx::{verif_dir, Ctx};
use serde_json::{json, Value};
use std::process::{Command, Stdio};
use std::time::{Duration, Instant};

struct Out {
    code: Option<i32>,
    stdout: String,
    stderr: String,
    timed_out: bool,
}

fn run(mut cmd: Command, timeout: Duration) -> Out {
    cmd.stdin(Stdio::null()).stdout(Stdio::piped()).stderr(Stdio::piped());
    let start = Instant::now();
    let mut child = match cmd.spawn() {
        Ok(c) => c,
        Err(e) => return Out { code: None, stdout: String::new(), stderr: format!("spawn failed: {}", e), timed_out: false },
    };
    // read pipes in threads to avoid blocking on full buffers
    let mut so = child.stdout.take().unwrap();
    let mut se = child.stderr.take().unwrap();
    let h1 = std::thread::spawn(move || {
        let mut s = String::new();
        let _ = std::io::Read::read_to_string(&mut so, &mut s);
        s
    });
    let h2 = std::thread::spawn(move || {
        let mut s = String::new();
        let _ = std::io::Read::read_to_string(&mut se, &mut s);
        s
    });
    let mut timed_out = false;
    let code = loop {
        match child.try_wait() {
            Ok(Some(st)) => break st.code(),
            Ok(None) => {
                if start.elapsed() > timeout {
                    let _ = child.kill();
                    let _ = child.wait();
                    timed_out = true;
                    break None;
                }
                std::thread::sleep(Duration::from_millis(200));
            }
            Err(_) => break None,
        }
    };
    Out { code, stdout: h1.join().unwrap_or_default(), stderr: h2.join().unwrap_or_default(), timed_out }
}

fn cargo(target_sub: &str) -> Command {
    let mut c = Command::new("cargo");
    c.current_dir(verif_dir().join("harness"));
    c.env("CARGO_TARGET_DIR", verif_dir().join("target").join(target_sub));
    c.env("CARGO_NET_OFFLINE", "true");
    c
}

fn tail(s: &str, n: usize) -> String {
    let c: Vec<char> = s.chars().collect();
    c[c.len().saturating_sub(n)..].iter().collect()
}

/// Miri: n parallel interpreter processes, each one slice of the shard workload
fn miri(ctx: &Ctx, prop: &str, slices: usize) -> Value {
    // build once (first slice), then the rest in parallel
    let mk = |i: usize| {
        let mut c = cargo("miri");
        c.args(["+nightly", "miri", "run", "--offline", "-q", "-p", "mon", "--", "shard", prop, &i.to_string(), &slices.to_string()]);
        c.env("MIRIFLAGS", "-Zmiri-disable-isolation");
        c
    };
    let first = run(mk(0), Duration::from_secs(3600));
    let mut outs = vec![first];
    if outs[0].stdout.contains("SHARD-OK") {
        let hs: Vec<_> = (1..slices).map(|i| std::thread::spawn(move || i)).collect();
        let rest: Vec<Out> = std::thread::scope(|s| {
            let hs2: Vec<_> = hs.into_iter().map(|h| h.join().unwrap()).map(|i| s.spawn(move || run(mk(i), Duration::from_secs(3600)))).collect();
            hs2.into_iter().map(|h| h.join().unwrap()).collect()
        });
        outs.extend(rest);
    }
    summarize(ctx, prop, "miri", outs, &["Undefined Behavior", "error: unsupported operation", "data race"])
}

fn asan(ctx: &Ctx, prop: &str) -> Value {
    let mut b = cargo("asan");
    b.args(["+nightly", "build", "--offline", "-q", "--release", "-p", "mon", "--target", "x86_64-unknown-linux-gnu"]);
    b.env("RUSTFLAGS", "-Zsanitizer=address -Cforce-frame-pointers=yes");
    let built = run(b, Duration::from_secs(3600));
    if built.code != Some(0) {
        ctx.add_inconclusive("asan build failed", 1);
        return json!({"tool": "asan", "built": false, "note": tail(&built.stderr, 400)});
    }
    let exe = verif_dir().join("target/asan/x86_64-unknown-linux-gnu/release/vfmon");
    let mut outs = vec![];
    let mut c = Command::new(&exe);
    c.args(["shard", prop, "0", "1"]).env("ASAN_OPTIONS", "halt_on_error=1:abort_on_error=0:detect_leaks=0");
    outs.push(run(c, Duration::from_secs(1800)));
    if prop == "C08" {
        // a slice of the bulk corpus through every entry point, in-process (no rlimits: ASan
        // needs its shadow memory)
        for (from, to) in [(0usize, 1500usize), (20000, 21500)] {
            let mut c = Command::new(&exe);
            c.args(["worker", "C08", "bulk", "quick", &from.to_string(), &to.to_string()]).env("ASAN_OPTIONS", "halt_on_error=1:abort_on_error=0:detect_leaks=0").env("VERIF_SEED", (ctx.seed as i64).to_string());
            outs.push(run(c, Duration::from_secs(1800)));
        }
    }
    summarize(ctx, prop, "asan", outs, &["ERROR: AddressSanitizer"])
}

fn tsan(ctx: &Ctx, prop: &str, reps: usize) -> Value {
    let mut b = cargo("tsan");
    b.args(["+nightly", "build", "--offline", "-q", "--release", "-p", "mon", "-Zbuild-std", "--target", "x86_64-unknown-linux-gnu"]);
    b.env("RUSTFLAGS", "-Zsanitizer=thread");
    let built = run(b, Duration::from_secs(3600));
    if built.code != Some(0) {
        ctx.add_inconclusive("tsan build failed", 1);
        return json!({"tool": "tsan", "built": false, "note": tail(&built.stderr, 400)});
    }
    let exe = verif_dir().join("target/tsan/x86_64-unknown-linux-gnu/release/vfmon");
    let mut outs = vec![];
    for _ in 0..reps {
        let mut c = Command::new(&exe);
        c.args(["shard", prop, "0", "1"]).env("TSAN_OPTIONS", "halt_on_error=1");
        outs.push(run(c, Duration::from_secs(1800)));
    }
    summarize(ctx, prop, "tsan", outs, &["WARNING: ThreadSanitizer"])
}

fn summarize(ctx: &Ctx, prop: &str, tool: &str, outs: Vec<Out>, markers: &[&str]) -> Value {
    let mut cases = 0u64;
    let mut reports = 0u64;
    let mut inconclusive = 0u64;
    for o in &outs {
        let report = markers.iter().any(|m| o.stderr.contains(m) || o.stdout.contains(m));
        if report {
            reports += 1;
            ctx.violate(
                &format!("{} reports a defect while running the {} shard: {}", tool, prop, tail(&o.stderr, 600)),
                json!({"kind": "sanitizer", "tool": tool, "stderr_tail": tail(&o.stderr, 3000)}),
            );
            continue;
        }
        if let Some(l) = o.stdout.lines().find(|l| l.starts_with("SHARD-VIOLATION")) {
            reports += 1;
            ctx.violate(&format!("{} shard under {}: {}", prop, tool, l), json!({"kind": "sanitizer", "tool": tool, "line": l}));
            continue;
        }
        // worker-protocol output: E lines with violations
        for l in o.stdout.lines().filter(|l| l.starts_with("E ")) {
            if let Some(p) = l.splitn(3, ' ').nth(2) {
                if let Ok(Value::Array(vs)) = serde_json::from_str::<Value>(p) {
                    for v in vs {
                        reports += 1;
                        ctx.violate(&format!("[{} build] {}", tool, v["what"].as_str().unwrap_or("?")), v["replay"].clone());
                    }
                }
            }
        }
        if let Some(l) = o.stdout.lines().find(|l| l.starts_with("SHARD-OK")) {
            cases += l.split_whitespace().nth(1).and_then(|n| n.parse::<u64>().ok()).unwrap_or(0);
        } else if o.stdout.lines().any(|l| l.starts_with("S ")) {
            cases += o.stdout.lines().filter(|l| l.starts_with("E ")).count() as u64;
        } else if o.timed_out || o.code != Some(0) {
            inconclusive += 1;
            ctx.add_inconclusive(&format!("{} run did not complete", tool), 1);
        }
    }
    json!({"tool": tool, "built": true, "processes": outs.len(), "cases": cases, "reports": reports, "inconclusive_processes": inconclusive})
}

/// the sanitizer runs that belong to a property's thorough tier
pub fn thorough(ctx: &Ctx, prop: &str) -> Vec<Value> {
    let mut v = vec![];
    match prop {
        "C08" => {
            v.push(asan(ctx, "C08"));
            v.push(miri(ctx, "C08", 8));
        }
        "C01" => v.push(miri(ctx, "C01", 8)),
        "C09" => v.push(miri(ctx, "C09", 8)),
        "C11" => {
            v.push(asan(ctx, "C11"));
            v.push(miri(ctx, "C11", 16));
        }
        "C12" => {
            v.push(tsan(ctx, "C12", 20));
            v.push(miri(ctx, "C12", 6));
        }
        _ => {}
    }
    v
}
