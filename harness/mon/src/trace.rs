//! Hook event capture and the trace checkers over segment events (DESIGN 4/C01, C02):
//! * local selection check: each top-level segment's observed (input, output) pair against the
//!   reference applied to that observed input (catches wrong steps that cancel out);
//! * permissive order check: RFC 9535 fixes the order of a descendant segment only partially
//!   (node before its descendants, array elements in array order), so a block is accepted iff it
//!   is consistent with that partial order; child segments must match exactly.

use crate::libapi::Doc;
use jsonpath_rust::verif::{self, Event};
use oracle::ast::*;
use oracle::eval::Ctx as RefCtx;
use oracle::json::{Loc, Step};
use std::cell::RefCell;
use std::rc::Rc;

pub fn with_events<R>(f: impl FnOnce() -> R) -> (R, Vec<Event>) {
    let log: Rc<RefCell<Vec<Event>>> = Rc::new(RefCell::new(vec![]));
    let l2 = log.clone();
    verif::install(Box::new(move |e| l2.borrow_mut().push(e)));
    let r = std::panic::catch_unwind(std::panic::AssertUnwindSafe(f));
    verif::uninstall();
    let evs = log.borrow().clone();
    match r {
        Ok(r) => (r, evs),
        Err(p) => std::panic::resume_unwind(p),
    }
}

/// x must be visited before y under the RFC's partial order
fn must_precede(x: &Loc, y: &Loc) -> bool {
    if y.len() > x.len() && y[..x.len()] == x[..] {
        return true;
    }
    if let Some((Step::Idx(a), prefix)) = x.split_last() {
        if y.len() > prefix.len() && y[..prefix.len()] == prefix[..] {
            if let Step::Idx(b) = &y[prefix.len()] {
                return b > a;
            }
        }
    }
    false
}

#[derive(Debug, Default)]
pub struct TraceStats {
    pub segment_events: usize,
    pub top_level: usize,
    pub local_checks: usize,
    pub permissive_blocks: usize,
    pub noncanonical_accepted: usize,
    pub known_union_segments: usize,
}

#[derive(Debug)]
pub enum TraceErr {
    /// a node list contains an address that is not a node of the document
    Foreign,
    Selection(String),
    Order(String),
    Chain(String),
}

fn locs_of(doc: &Doc, v: &[(usize, String)]) -> Option<Vec<Loc>> {
    v.iter().map(|(a, _)| doc.loc_of(*a).cloned()).collect()
}

fn sorted(v: &[Loc]) -> Vec<Loc> {
    let mut s = v.to_vec();
    s.sort();
    s
}

/// Checks the depth-0 segment events of one evaluation of `ast` over `doc`.
/// `result` = what the API returned (addresses).
pub fn check_segments(ast: &Query, doc: &Doc, events: &[Event], result: &[usize], check_order: bool, selector_major_known: bool, st: &mut TraceStats) -> Result<(), TraceErr> {
    let mut tops: Vec<(&Option<Vec<(usize, String)>>, &Option<Vec<(usize, String)>>)> = vec![];
    for e in events {
        if let Event::Segment { depth, input, output, .. } = e {
            st.segment_events += 1;
            if *depth == 0 {
                tops.push((input, output));
            }
        }
    }
    st.top_level += tops.len();
    if tops.len() != ast.segments.len() {
        return Err(TraceErr::Chain(format!("{} top-level segment events for {} segments", tops.len(), ast.segments.len())));
    }
    let root_addr = crate::libapi::addr(&doc.value);
    let mut prev: Vec<usize> = vec![root_addr];
    for (k, (input, output)) in tops.iter().enumerate() {
        let seg = &ast.segments[k];
        let inp: Vec<(usize, String)> = (*input).clone().unwrap_or_default();
        let out: Vec<(usize, String)> = (*output).clone().unwrap_or_default();
        let in_addrs: Vec<usize> = inp.iter().map(|x| x.0).collect();
        if in_addrs != prev {
            return Err(TraceErr::Chain(format!("input of segment {} is not the output of segment {}", k, k as i64 - 1)));
        }
        prev = out.iter().map(|x| x.0).collect();
        let in_locs = locs_of(doc, &inp).ok_or(TraceErr::Foreign)?;
        let out_locs = locs_of(doc, &out).ok_or(TraceErr::Foreign)?;
        // reference contribution of each input node
        let mut rc = RefCtx::new(&doc.j);
        let mut expected_blocks: Vec<Vec<Loc>> = vec![];
        for l in &in_locs {
            let node = match doc.j.at(l) {
                Some(n) => n,
                None => return Err(TraceErr::Foreign),
            };
            let r = rc.apply_segment(seg, vec![(l.clone(), node)]).map_err(|_| TraceErr::Chain("budget".into()))?;
            expected_blocks.push(r.into_iter().map(|(l, _)| l).collect());
        }
        st.local_checks += 1;
        let expected_all: Vec<Loc> = expected_blocks.iter().flatten().cloned().collect();
        if sorted(&expected_all) != sorted(&out_locs) {
            return Err(TraceErr::Selection(format!(
                "segment {} ({:?}): from observed input {:?} expected {:?} observed {:?}",
                k,
                seg,
                in_locs.iter().map(|l| oracle::npath::render(l)).collect::<Vec<_>>(),
                expected_all.iter().map(|l| oracle::npath::render(l)).collect::<Vec<_>>(),
                out_locs.iter().map(|l| oracle::npath::render(l)).collect::<Vec<_>>()
            )));
        }
        if !check_order {
            continue;
        }
        if out_locs == expected_all {
            st.permissive_blocks += expected_blocks.len();
            continue;
        }
        if selector_major_known && seg.selectors.len() > 1 && seg.descendant {
            // the armed union-order finding under a traversal order other than pre-order: the
            // output is, selector by selector, the selection over the visited nodes. Cut it by the
            // (order-independent) per-selector sizes and judge each chunk with the single-selector
            // permissive parse; the visit orders of the chunks must agree with each other.
            let mut rc3 = RefCtx::new(&doc.j);
            let mut all_visited: Vec<Node> = vec![];
            for l in &in_locs {
                if let Some(n) = doc.j.at(l) {
                    let one = Segment { descendant: true, selectors: vec![Selector::Wildcard] };
                    let _ = one;
                    collect_preorder(&(l.clone(), n), &mut all_visited);
                }
            }
            let mut pos = 0usize;
            let mut ok = true;
            let mut orders: Vec<Vec<Loc>> = vec![];
            for s in &seg.selectors {
                let mut size = 0usize;
                for v in &all_visited {
                    let mut tmp = vec![];
                    if rc3.select(s, v, &mut tmp).is_err() {
                        ok = false;
                    }
                    size += tmp.len();
                }
                if pos + size > out_locs.len() {
                    ok = false;
                    break;
                }
                let chunk = &out_locs[pos..pos + size];
                pos += size;
                let single = [s.clone()];
                match descend_block(doc, &mut rc3, &single, chunk, in_locs.len() == 1) {
                    Ok(v) => orders.push(v),
                    Err(_) => {
                        ok = false;
                        break;
                    }
                }
            }
            if ok && pos == out_locs.len() && in_locs.len() == 1 {
                // mutual consistency: common nodes appear in the same relative order in every chunk
                for a in 0..orders.len() {
                    for b in (a + 1)..orders.len() {
                        let common: Vec<&Loc> = orders[a].iter().filter(|l| orders[b].contains(l)).collect();
                        let common_b: Vec<&Loc> = orders[b].iter().filter(|l| orders[a].contains(l)).collect();
                        if common != common_b {
                            ok = false;
                        }
                    }
                }
            }
            if ok && pos == out_locs.len() {
                st.known_union_segments += 1;
                continue;
            }
        }
        if selector_major_known && seg.selectors.len() > 1 {
            // exact effect model of the armed union-order finding, applied to this one segment
            let mut rc2 = RefCtx::with_dev(&doc.j, oracle::eval::Dev { selector_major: true });
            let inputs: Vec<_> = in_locs.iter().filter_map(|l| doc.j.at(l).map(|n| (l.clone(), n))).collect();
            if let Ok(r) = rc2.apply_segment(seg, inputs) {
                let alt: Vec<Loc> = r.into_iter().map(|(l, _)| l).collect();
                if alt == out_locs {
                    st.known_union_segments += 1;
                    continue;
                }
            }
        }
        // cut into blocks by the order-independent sizes
        let mut pos = 0;
        for (bi, exp) in expected_blocks.iter().enumerate() {
            let block = &out_locs[pos..pos + exp.len()];
            pos += exp.len();
            st.permissive_blocks += 1;
            if block == &exp[..] {
                continue;
            }
            if !seg.descendant {
                return Err(TraceErr::Order(format!(
                    "segment {} block {}: expected {:?} observed {:?}",
                    k,
                    bi,
                    exp.iter().map(|l| oracle::npath::render(l)).collect::<Vec<_>>(),
                    block.iter().map(|l| oracle::npath::render(l)).collect::<Vec<_>>()
                )));
            }
            // descendant: parse into sub-blocks per visited node
            match descend_block(doc, &mut rc, &seg.selectors, block, true) {
                Ok(_) => {}
                Err(m) => return Err(TraceErr::Order(format!("segment {}: {}", k, m))),
            }
            st.noncanonical_accepted += 1;
        }
    }
    if prev != result {
        return Err(TraceErr::Chain("output of the last segment is not the API result".into()));
    }
    Ok(())
}

type Node<'a> = (Loc, &'a oracle::json::J);

fn collect_preorder<'a>(n: &Node<'a>, out: &mut Vec<Node<'a>>) {
    out.push(n.clone());
    for (s, c) in n.1.children() {
        let mut l = n.0.clone();
        l.push(s);
        collect_preorder(&(l, c), out);
    }
}

/// Parses the output block of a descendant segment (for one input node) into the selections of
/// the visited nodes: each sub-block must be exactly `concat_s select(s, v)` for a node v (the
/// parent of its first element); with `strict` every v appears once and the visit order must be
/// consistent with "a node before its descendants, array elements in array order".
fn descend_block<'a>(doc: &'a Doc, rc: &mut RefCtx<'a>, selectors: &[Selector], block: &[Loc], strict: bool) -> Result<Vec<Loc>, String> {
    let mut visited: Vec<Loc> = vec![];
    let mut p = 0;
    while p < block.len() {
        let v: Loc = block[p][..block[p].len().saturating_sub(1)].to_vec();
        if strict && visited.contains(&v) {
            return Err(format!("selection of node {} is split or repeated", oracle::npath::render(&v)));
        }
        let vnode = doc.j.at(&v).ok_or_else(|| "node not in document".to_string())?;
        let mut sel = vec![];
        for s in selectors {
            rc.select(s, &(v.clone(), vnode), &mut sel).map_err(|_| "budget".to_string())?;
        }
        let sel: Vec<Loc> = sel.into_iter().map(|(l, _)| l).collect();
        if sel.is_empty() || p + sel.len() > block.len() || block[p..p + sel.len()] != sel[..] {
            return Err(format!(
                "children selected from {} are not in selector/container order: expected {:?} observed {:?}",
                oracle::npath::render(&v),
                sel.iter().map(|l| oracle::npath::render(l)).collect::<Vec<_>>(),
                block[p..(p + sel.len()).min(block.len())].iter().map(|l| oracle::npath::render(l)).collect::<Vec<_>>()
            ));
        }
        p += sel.len();
        visited.push(v);
    }
    if strict {
        for i in 0..visited.len() {
            for j in (i + 1)..visited.len() {
                if must_precede(&visited[j], &visited[i]) {
                    return Err(format!(
                        "{} visited before {} (a node must precede its descendants; array elements in array order)",
                        oracle::npath::render(&visited[i]),
                        oracle::npath::render(&visited[j])
                    ));
                }
            }
        }
    }
    Ok(visited)
}
