//! C10: length, count, value, match, search as RFC 9535 defines them.
//! Oracles: reference evaluator with the regex oracle (f) at the boundary; H4 hook events: each
//! function application actually performed is checked against the function's definition.

use crate::ctx::{par_run, Acc, Ctx, Evidence};
use crate::findings::{arm, Armed};
use crate::hookutil::{operand_brief, operand_count, operand_value};
use crate::judge::{self, judge_query, Verdict, NODES, ORDER};
use crate::libapi::{self, Doc};
use crate::trace::with_events;
use jsonpath_rust::verif::{Event, Operand};
use oracle::eval::{regex_oracle, u3_zone};
use oracle::json::J;
use oracle::parse::{analyze, Class};
use oracle::render::{quote, EscStyle};
use oracle::rng::Rng;
use serde_json::json;

fn subjects() -> Vec<String> {
    let mut v = vec![String::new()];
    let alpha = ['a', 'b', 'c'];
    let mut layer = vec![String::new()];
    for _ in 0..3 {
        let mut next = vec![];
        for s in &layer {
            for c in alpha {
                let mut t = s.clone();
                t.push(c);
                next.push(t);
            }
        }
        v.extend(next.iter().cloned());
        layer = next;
    }
    for s in ["A", "ab c", "x", "1", "12", "a1", "\u{e9}", "\u{1f600}", "\u{1f600}b", "e\u{301}", "a.b", "a|b", "(a)", "a\\b", "\\d", "[a]", "^a", "a$", "a*", "a b", "aaaa", "abcabc", "\u{416}", "]", "]x", "x]", "a]", ".", "-", "^", "[", "\\", "a]b", "v-1", "v.1", "v]1", "vx1", "+", "9", "Abcdefghijklmnopqrstuvwxyzabcdefghijklmnopqrstuvwxyz", "\u{416}\u{438}\u{432}\u{430}\u{433}\u{43e}", "ab12_", "a$", "a$b", "15$", "15$ or more", "a\\", "a\\b$", "$", "^a", "a$$", "$a"] {
        v.push(s.to_string());
    }
    v
}

pub fn patterns() -> Vec<&'static str> {
    vec![
        "a", "abc", "", ".", "..", "a.c", "a*", "a+", "a?", "ab*", "(ab)*", "(ab)+c?", "a|b", "a|bc", "ab|c", "a|ab", "a|ab|abc", "a(|b)", "(a|ab)*", "(a|ab)(c|bcd)?", "b|bc|bca", "(|a)b", "(a|b)c", "a(b|c)", "(a|b)*", "a||b", "[ab]", "[^a]", "[a-c]+", "[^a-b]*", "a{2}", "a{1,2}", "a{2,}", "(a|b){2}",
        "^a", "a$", "^a$", "^a|b$", "^(a|b)$", "\\d", "\\d+", "\\w+", "\\s", "\\p{Lu}", "\\p{L}+", "\\.", "a\\.b", "\\\\", "\\[a\\]", "\\(a\\)", "a\\|b", "\\^a", "a\\$", "\\\\d",
        // character classes: escaped brackets, dots, hyphens and carets inside, negation, ranges
        "[\\].]", "[^\\].]", "[\\]\\-.]", "v[\\]\\-.][0-9]", "[.]", "[.x]", "[a.\\]]", "[\\[]", "[\\]]", "[\\\\]", "[\\^a]", "[a\\-c]", "[-a]", "[a-]", "[^-a]", "[\\.]", "[|]", "[(]", "[)*+?]", "[{}]", "[a-c.]x", "x[\\].]", "[\\]][.]", "[^\\]]", "[^\\]]+\\.",
        "[\\d.]", "[\\w\\].]", "[\\p{L}.]", "[^\\p{L}]", "\\]", "a\\]", "[a]\\]\\.", ".[\\]].", "(\\]|.)", "[\\].]+", "[^\\].]*x", "[a\\].b]{2}", "[\\]a]|[.b]", "[^.]", "[^.\\]]", "[.-9]", "[+-.]",
        // large Unicode classes under counted repetition
        "\\p{L}{1,40}", "[\\p{L}\\p{Nd}_]{3,40}", "\\p{Lu}\\p{Ll}{2,64}", "\\p{L}{20}", "(\\p{L}|\\p{N})*", "[a-z]{1,1000}", ".{1,255}", "\\w{1,100}", "(\\p{L}{1,8}){1,8}",
        // anchors written by the user, escaped dollars and carets at the ends
        "^a\\$", "^\\d+\\$", "^a\\\\$", "a\\$", "^a$", "^ab$", "^a\\$$", "\\^a$", "^\\^a", "^(a)$", "^a.*\\$", "^[a$]$", "a$b", "^a$|b", "(^a$)", "^$", "^", "$", "\\$", "^\\$",
        // invalid patterns: both functions must answer false
        "[a", "(", "*a", "a{2,1}", "(?P<", "\\", "a)",
        // escapes of other regex dialects that are not patterns here (back-references, octal)
        "\\1", "\\0", "\\12", "\\101", "(A)\\1", "(a)\\1", "\\8", "\\141", "a\\0", "\\cA", "\\Qa\\E", "a{,2}", "[[:alpha:]]", "\\x41", "\\u0041", "\\N{LATIN SMALL LETTER A}", "(?=a)a", "(?<!b)a", "\\ba", "\\Aa", "a\\z", "a*?", "a+?", "a??", "(?i)A", "(?s).", "(?x) a",
        // quotes inside
        "'", "\"", "a'b", "'a'", "\"a\"", "x|'", "'|x",
    ]
}

fn q(s: &str) -> String {
    // a JSONPath string literal for s (single-quoted, minimal escapes)
    let mut out = String::new();
    quote(s, false, EscStyle::Minimal, &mut None, &mut out);
    out
}

pub fn values_doc() -> J {
    let o = |v: Vec<(&str, J)>| J::Obj(v.into_iter().map(|(k, v)| (k.to_string(), v)).collect());
    let vals = vec![
        J::Null,
        J::Bool(true),
        J::int(0),
        J::int(3),
        J::float(2.5),
        J::str(""),
        J::str("a"),
        J::str("abc"),
        J::str("\u{1f600}b"),
        J::str("e\u{301}"),
        J::str("\u{e9}\u{e9}"),
        J::Arr(vec![]),
        J::Arr(vec![J::int(1)]),
        J::Arr(vec![J::int(1), J::int(1)]),
        J::Arr(vec![J::int(1), J::int(2), J::int(3)]),
        J::Arr(vec![J::Arr(vec![J::int(1), J::int(2)]), J::Arr(vec![])]),
        o(vec![]),
        o(vec![("a", J::int(1))]),
        o(vec![("a", J::int(1)), ("b", J::int(2))]),
        o(vec![("a", J::str("abc")), ("b", J::Arr(vec![J::int(1), J::int(2)])), ("c", o(vec![("a", J::int(1))]))]),
        o(vec![("m", J::str("ab"))]),
        o(vec![("m", J::Arr(vec![J::int(7)]))]),
        o(vec![("m", J::int(2))]),
    ];
    o(vec![("v", J::Arr(vals.clone())), ("w", J::Obj(vals.iter().enumerate().map(|(i, v)| (format!("k{:02}", i), v.clone())).collect())), ("n", J::int(2)), ("s", J::str("ab")), ("l", J::Arr(vec![J::int(1), J::int(2)]))])
}

pub fn value_queries() -> Vec<String> {
    let mut out = vec![];
    let cmp_ops = ["==", "!=", "<", "<=", ">", ">="];
    for base in ["$.v", "$.w"] {
        // length
        for arg in ["@", "@.m", "@.a", "@[0]", "@.zz", "$.s", "$.l", "$.zz", "'abc'", "'\u{1f600}b'", "''", "1", "true", "null"] {
            for n in ["0", "1", "2", "3", "1.0", "$.n"] {
                out.push(format!("{}[?length({}) == {}]", base, arg, n));
            }
            out.push(format!("{}[?length({}) == length({})]", base, arg, arg));
            out.push(format!("{}[?length({}) != 1]", base, arg));
            out.push(format!("{}[?length({}) < 2 || length({}) > 2]", base, arg, arg));
        }
        // count
        for arg in ["@.*", "@[*]", "@.zz", "@..*", "@[0,0]", "@['a','a']", "@[0,*]", "@[:2]", "@[?@>1]", "@[?@]", "$.v[*]", "$.zz", "@", "@.a", "@..a", "@.*.*", "@[0,1,0]", "$..[0]"] {
            for n in ["0", "1", "2", "3", "4"] {
                out.push(format!("{}[?count({}) == {}]", base, arg, n));
            }
            out.push(format!("{}[?count({}) > 1 && count({}) < 4]", base, arg, arg));
            out.push(format!("{}[?count({}) != count(@.*)]", base, arg));
            out.push(format!("{}[?count({}) >= length(@)]", base, arg));
        }
        // value
        for arg in ["@.*", "@[*]", "@.a", "@.zz", "@[0]", "@[0,0]", "@[0,1]", "@..a", "@[?@>2]", "@", "$.n", "$.l[*]", "$.l[0]", "@.m[*]", "@..m"] {
            for op in cmp_ops {
                out.push(format!("{}[?value({}) {} 1]", base, arg, op));
            }
            out.push(format!("{}[?value({}) == 'abc']", base, arg));
            out.push(format!("{}[?value({}) == value({})]", base, arg, arg));
            out.push(format!("{}[?value({}) == @.zz]", base, arg));
            out.push(format!("{}[?value({}) == null]", base, arg));
            out.push(format!("{}[?length(value({})) == 2]", base, arg));
            out.push(format!("{}[?value({}) == $.n]", base, arg));
        }
        // results in comparisons and tests
        for e in [
            "length(@) < count(@.*)", "length(@) == count(@.*)", "count(@.*) > length(@.a)", "value(@.a) == length(@.b)", "length(@) == value(@.m)", "!match(@, 'a.*')", "match(@, 'a.*') || length(@) == 0",
            "match(@, 'a.*') && length(@) > 1", "!search(@, 'b') && !match(@, 'a')", "search(@.a, 'b') || search(@.m, 'a')", "!(match(@, '.*') && search(@, ''))", "count(@.*) == 0 || !match(@.a, 'abc')",
            "length(@.a) > count(@.b[*])",
        ] {
            out.push(format!("{}[?{}]", base, e));
        }
    }
    out
}

fn regex_doc(pattern: &str) -> J {
    let mut subj: Vec<J> = subjects().into_iter().map(J::Str).collect();
    // non-string subjects
    subj.extend(vec![J::Null, J::Bool(true), J::int(1), J::Arr(vec![J::str("a")]), J::Obj(vec![("a".into(), J::str("a"))])]);
    J::Obj(vec![("s".into(), J::Arr(subj)), ("p".into(), J::Str(pattern.to_string())), ("np".into(), J::int(1))])
}

pub fn run(ctx: &Ctx) -> Result<Evidence, String> {
    let armed: Armed = arm(ctx, &|_| None)?;
    let vdoc = Doc::new(&values_doc());
    let vq = value_queries();
    let mut pats: Vec<String> = patterns().iter().map(|s| s.to_string()).collect();
    // random patterns from a small pattern grammar
    let mut rng = Rng::stream(ctx.seed, 10);
    for _ in 0..ctx.tier.pick(60, 8000) {
        pats.push(random_pattern(&mut rng, 3));
    }
    let rdocs: Vec<Doc> = pats.iter().map(|p| Doc::new(&regex_doc(p))).collect();
    // per pattern: match/search x literal/from-document x polarity, plus non-string pattern/subject
    let forms: Vec<(&str, bool)> = vec![
        ("$.s[?{F}(@, {P})]", true),
        ("$.s[?!{F}(@, {P})]", true),
        ("$.s[?{F}(@, $.p)]", false),
        ("$.s[?!{F}(@, $.p)]", false),
        ("$.s[?{F}(@, $.np)]", false),
        ("$.s[?{F}(@, $.zz)]", false),
        ("$.s[?{F}($.p, @)]", false),
        ("$.s[?{F}({P}, @)]", true),
        ("$.s[?{F}(@, {P}) || {F}(@, 'c')]", true),
        ("$.s[?{F}(@, value($.p))]", false),
        ("$.s[?{F}(value(@), $.p)]", false),
        ("$.s[?!{F}(value(@), value($.p))]", false),
        ("$.s[?{F}(@, value($..p))]", false),
    ];
    // long and unusual strings: length() by Unicode scalar values, match/search over them
    let ldoc = Doc::new(&J::Obj(vec![("s".into(), J::Arr(oracle::gen::boundary_strings().into_iter().map(J::Str).collect())), ("p".into(), J::str("a{2048}"))]));
    let mut lq: Vec<String> = vec![];
    for n in [0usize, 1, 15, 16, 17, 31, 32, 33, 63, 64, 65, 127, 128, 129, 255, 256, 257, 1000, 1001, 2047, 2048, 2049, 4096, 4097, 10000, 10001] {
        lq.push(format!("$.s[?length(@) == {}]", n));
        lq.push(format!("$.s[?length(@) > {}]", n));
    }
    for e in ["match(@, 'a*')", "match(@, '(a|\u{e9})*')", "search(@, 'a{64}')", "search(@, 'b\u{1f600}$')", "match(@, $.p)", "match(@, '.{2048}')", "search(@, '^.{2049,}$')", "length(@) == length(@)", "match(@, '[^b]*') && length(@) >= 2048"] {
        lq.push(format!("$.s[?{}]", e));
    }
    let n_l = lq.len();
    let n_v = vq.len();
    let n_r = pats.len() * forms.len() * 2;
    let acc = par_run(ctx, n_v + n_r + n_l, |i, acc: &mut Acc| {
        let (text, doc, fam): (String, &Doc, &str);
        let mut pat_lit_trigger = false;
        if i >= n_v + n_r {
            text = lq[i - n_v - n_r].clone();
            doc = &ldoc;
            fam = "long-strings";
        } else if i < n_v {
            text = vq[i].clone();
            doc = &vdoc;
            fam = "value-functions";
        } else {
            let k = i - n_v;
            let f = if k % 2 == 0 { "match" } else { "search" };
            let (tmpl, uses_lit) = forms[(k / 2) % forms.len()];
            let pi = k / 2 / forms.len();
            text = tmpl.replace("{F}", f).replace("{P}", &q(&pats[pi]));
            doc = &rdocs[pi];
            fam = "regex";
            // zone P16: quote characters at the ends of a pattern are stripped by the library
            let p = &pats[pi];
            pat_lit_trigger = p.starts_with(['\'', '"']) || p.ends_with(['\'', '"']) || (!uses_lit && p.contains("\\\\"));
            let _ = uses_lit;
        }
        let parsed = analyze(&text);
        if parsed.ast.is_none() || !matches!(parsed.class, Class::Valid) {
            acc.count("HARNESS_not_valid", 1);
            if std::env::var("VERIF_DEBUG").is_ok() {
                eprintln!("not valid: {} {:?}", text, parsed.class);
            }
            return;
        }
        acc.evaluations += 1;
        acc.count(&format!("family_{}", fam), 1);
        let j = judge_query(&text, &parsed, doc, NODES | ORDER, &armed);
        let mut verdict = j.verdict.clone();
        if let Verdict::Violated(_) = &verdict {
            if pat_lit_trigger && armed.has("pattern_mangling") {
                verdict = Verdict::Known(armed.id_of("pattern_mangling"));
            }
        }
        // H4: each function application
        if matches!(verdict, Verdict::Held) && i % 2 == 0 {
            let (_, events) = with_events(|| libapi::query_with_path(&text, &doc.value));
            for e in events {
                if let Event::Func { name, args, result } = e {
                    acc.count("h4_function_events", 1);
                    if let Err(m) = check_func(&name, &args, &result, acc) {
                        if pat_lit_trigger && armed.has("pattern_mangling") {
                            continue;
                        }
                        if judge::triggers(&parsed).lit_esc && armed.has("lit_esc") {
                            continue;
                        }
                        verdict = Verdict::Violated(format!("H4: {}", m));
                        break;
                    }
                }
            }
        }
        for (n, a, r) in &j.flags.fn_calls {
            acc.mark("function_x_args_x_result", format!("{}({}) -> {}", n, a, r));
        }
        if !j.ref_locs.is_empty() {
            acc.nontrivial(text.as_bytes());
            acc.sample(json!({"family": fam, "query": text, "kept": j.ref_locs.len()}));
        }
        match verdict {
            Verdict::Held => acc.count("held", 1),
            Verdict::Known(id) => ctx.add_known(&id, 1),
            Verdict::Skipped(z) => ctx.add_skipped(z, 1),
            Verdict::Inconclusive(w) => ctx.add_inconclusive(&w, 1),
            Verdict::Violated(m) => ctx.violate(&m, judge::replay_json("query", &text, doc, &j)),
        }
    });
    if acc.counters.get("HARNESS_regex_oracle_disagreement").copied().unwrap_or(0) > 0 {
        return Err(format!("the regex oracle and the mini matcher disagree on {} (pattern, subject) pairs: oracle defect", acc.counters["HARNESS_regex_oracle_disagreement"]));
    }
    if acc.counters.get("HARNESS_not_valid").copied().unwrap_or(0) > 0 {
        return Err(format!("{} generated C10 queries are not Valid for oracle (b)", acc.counters["HARNESS_not_valid"]));
    }
    let mut ev = Evidence::new("cases: (i) length/count/value over every JSON type (literal, @, @.m, missing, multi-node, duplicate-node and filter-produced node lists), their results compared with literals, with each other and with Nothing and used under !, &&, ||; (ii) match/search: a pattern list covering literals, ., classes, negated classes, groups, top-level and nested alternation, quantifiers, explicit anchors, \\d \\w \\s \\p{..}, escaped metacharacters, invalid patterns, quotes + seeded random patterns, each x all strings of length <= 3 over {a,b,c} plus a unicode set and non-strings; pattern as literal and from a document node; both polarities; swapped/non-string arguments. Patterns include character classes with escaped brackets / dots / hyphens / carets and large Unicode classes under counted repetition. Non-trivial = distinct query texts that keep at least one child. The reference run records the (function, argument kinds, result) triples listed in function_x_args_x_result.");
    ev.set("exhaustive", json!(false));
    ev.set("patterns", json!(pats.len()));
    ev.set("subjects_per_pattern", json!(subjects().len() + 5));
    ev.assume("regular-expression semantics are those of the `regex` crate (the property's 'supported dialect'): expected match = \\A(?:p)\\z, expected search = p, false if p does not compile");
    ev.min_nontrivial = 200;
    let mut acc = acc;
    acc.sets.remove("unused");
    acc.into_evidence(&mut ev);
    Ok(ev)
}

fn random_pattern(rng: &mut Rng, depth: usize) -> String {
    let atom = |rng: &mut Rng| -> String {
        match rng.below(8) {
            0 => "a".into(),
            1 => "b".into(),
            2 => "c".into(),
            3 => ".".into(),
            4 => "[ab]".into(),
            5 => "[^a]".into(),
            6 => "\\w".into(),
            _ => "x".into(),
        }
    };
    let mut s = String::new();
    let n = 1 + rng.below(3);
    for i in 0..n {
        if i > 0 && rng.chance(1, 3) {
            s.push('|');
        }
        let mut a = if depth > 0 && rng.chance(1, 4) { format!("({})", random_pattern(rng, depth - 1)) } else { atom(rng) };
        match rng.below(7) {
            0 => a.push('*'),
            1 => a.push('+'),
            2 => a.push('?'),
            3 => a.push_str("{2}"),
            _ => {}
        }
        s.push_str(&a);
    }
    s
}

/// the definition of each function over the arguments the library actually saw
fn check_func(name: &str, args: &[Operand], result: &Operand, acc: &mut Acc) -> Result<(), String> {
    let show = || format!("{}({}) -> {}", name, args.iter().map(operand_brief).collect::<Vec<_>>().join(", "), operand_brief(result));
    match (name, args) {
        ("length", [a]) => {
            let v = match operand_value(a) {
                Ok(v) => v,
                Err(_) => return Ok(()), // non-singular argument: ill-typed, not judged here
            };
            let want: Option<i64> = match &v {
                Some(J::Str(s)) => Some(s.chars().count() as i64),
                Some(J::Arr(x)) => Some(x.len() as i64),
                Some(J::Obj(x)) => Some(x.len() as i64),
                _ => None,
            };
            let got = operand_value(result).map_err(|_| show())?;
            let ok = match (want, &got) {
                (None, None) => true,
                (Some(w), Some(J::Num(n))) => n.as_f64() == w as f64,
                _ => false,
            };
            acc.count("h4_length_checked", 1);
            if !ok {
                return Err(format!("length is wrong: {}", show()));
            }
        }
        ("count", [a]) => {
            let want = operand_count(a) as f64;
            let got = operand_value(result).map_err(|_| show())?;
            acc.count("h4_count_checked", 1);
            if !matches!(&got, Some(J::Num(n)) if n.as_f64() == want) {
                return Err(format!("count is wrong (expected {}): {}", want, show()));
            }
        }
        ("value", [a]) => {
            let want = match a {
                Operand::Nodes(ns) if ns.len() != 1 => None,
                other => operand_value(other).unwrap_or(None),
            };
            let got = match result {
                Operand::Nodes(ns) if ns.len() != 1 => None,
                other => operand_value(other).unwrap_or(None),
            };
            acc.count("h4_value_checked", 1);
            let same = match (&want, &got) {
                (None, None) => true,
                (Some(x), Some(y)) => oracle::json::json_eq(x, y),
                _ => false,
            };
            if !same {
                return Err(format!("value is wrong: {}", show()));
            }
        }
        (f @ ("match" | "search"), [s, p]) => {
            let (sv, pv) = (operand_value(s).unwrap_or(None), operand_value(p).unwrap_or(None));
            let want = match (&sv, &pv) {
                (Some(J::Str(s)), Some(J::Str(p))) => {
                    if u3_zone(s, p) {
                        return Ok(());
                    }
                    let o = regex_oracle(s, p, f == "search");
                    // keep the oracle honest: the independent mini matcher must agree wherever
                    // the pattern is inside its subset
                    if let Some(mini) = oracle::minire::is_match(p, s, f == "search") {
                        if mini == o {
                            acc.count("regex_oracle_agrees_with_mini_matcher", 1);
                        } else {
                            acc.count("HARNESS_regex_oracle_disagreement", 1);
                            if std::env::var("VERIF_DEBUG").is_ok() {
                                eprintln!("MINIRE pattern={:?} subject={:?} search={} mini={} oracle={}", p, s, f == "search", mini, o);
                            }
                        }
                    } else {
                        acc.count("regex_pattern_outside_mini_matcher_subset", 1);
                    }
                    o
                }
                _ => false,
            };
            acc.count("h4_regex_checked", 1);
            let got = match result {
                Operand::Value(jsonpath_rust::verif::Json::Bool(b)) => Some(*b),
                _ => None,
            };
            if got != Some(want) {
                return Err(format!("{} is wrong (expected {}): {}", f, want, show()));
            }
        }
        _ => {}
    }
    Ok(())
}
