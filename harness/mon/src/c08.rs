//! C08: parsing and evaluation never panic, abort, overflow or hang; evaluation of a parsed query
//! never fails. Oracle: the crash / CPU-time detector of the isolated worker (no reference
//! needed). Run under the release and the overflow-checked profile; library code runs on an
//! 8 MiB stack (the main-thread default) inside the worker.

use crate::convert;
use crate::ctx::{Acc, Ctx, Evidence, Tier};
use crate::findings::{Armed, WitnessState};
use crate::libapi::{self, LibOutcome};
use crate::worker::{exe_for, run_isolated, CaseSet, Death, Isolation};
use jsonpath_rust::query::queryable::Queryable;
use oracle::abnf::Deriver;
use oracle::gen;
use oracle::json::J;
use oracle::rng::Rng;
use oracle::selftest::Recognisers;
use serde_json::{json, Value};
use std::collections::BTreeMap;
use std::sync::Mutex;

pub const RUNGS: [usize; 9] = [16, 64, 128, 256, 512, 1024, 4096, 16384, 100000];
pub const EXP_RUNGS: [usize; 5] = [4, 8, 12, 16, 20];

#[derive(Debug, Clone)]
pub enum Case {
    /// arbitrary string through every entry point against the hostile documents
    Str(String, &'static str),
    /// programmatically built query (public model types), integers in the I-JSON range
    Prog(oracle::ast::Query, &'static str),
    Ladder(&'static str, usize),
}

pub struct Set {
    pub cases: Vec<Case>,
    pub docs: Vec<Value>,
    pub ladder_doc: Value,
}

pub fn ladder_query(kind: &str, n: usize) -> Option<String> {
    let rep = |s: &str, n: usize| s.repeat(n);
    Some(match kind {
        "paren" => format!("$[?{}@.a{}]", rep("(", n), rep(")", n)),
        "not-paren" => format!("$[?{}@.a{}]", rep("!(", n), rep(")", n)),
        "nested-filter" => format!("$[?{}@.a{}]", rep("@[?", n), rep("]", n)),
        "fn-nest" => format!("$[?{}@.a{} == 1]", rep("length(", n), rep(")", n)),
        "fn-nest-broken" => format!("$[?{}!", rep("f(", n)),
        "fn-nest-compare" => format!("$[?{}@.a{}]", rep("f(", n), rep(" == 1)", n)),
        "segments" => format!("${}", rep(".a", n)),
        "bracket-segments" => format!("${}", rep("[0]", n)),
        // the node list is empty (not absent) from the first segment on
        // a comparison whose operand is a function over a filter that again holds such a
        // comparison: work must grow with the depth, not double with it
        "ge-count-filter-nest" => format!("$[?{}1 >= 1{}]", rep("count(@[?", n), rep("]) >= 1", n)),
        "le-count-filter-nest" => format!("$[?{}1 <= 1{}]", rep("count(@[?", n), rep("]) <= 1", n)),
        "segments-after-empty" => format!("$[?@.zz]{}", rep(".a", n)),
        "bracket-segments-after-empty" => format!("$[0:0]{}", rep("[0]", n)),
        "desc-chain" => format!("${}", rep("..a", n.min(2000))),
        "union" => format!("$[{}0]", rep("0,", n)),
        "or-chain" => format!("$[?{}@.a]", rep("@.a||", n)),
        "and-chain" => format!("$[?{}@.a]", rep("@.a&&", n)),
        "singular-steps" => format!("$[?@{} == 1]", rep(".a", n)),
        "slice-chain" => format!("${}", rep("[::-1]", n)),
        "blank-run" => format!("$[{}0{}]", rep(" ", n), rep("\t", n)),
        "long-name" => format!("$['{}']", rep("k", n)),
        "long-number" => format!("$[?@.a == 1{}]", rep("0", n)),
        "long-exponent" => format!("$[?@.a == 1e{}]", rep("9", n)),
        _ => return None,
    })
}

pub const QUERY_LADDERS: [&str; 22] = [
    "paren", "not-paren", "nested-filter", "fn-nest", "fn-nest-broken", "fn-nest-compare", "segments", "bracket-segments", "desc-chain", "union", "or-chain", "and-chain", "singular-steps", "slice-chain", "blank-run", "long-name", "long-number", "long-exponent", "segments-after-empty", "bracket-segments-after-empty", "ge-count-filter-nest", "le-count-filter-nest",
];
pub const DOC_LADDERS: [&str; 6] = ["doc-depth-built-array", "doc-depth-built-object", "doc-depth-parsed", "doc-width", "deep-equal-objects", "deep-equal-arrays"];

/// the rung up to which a ladder MUST hold (violation below, exploration above)
pub fn required_rung(kind: &str) -> usize {
    match kind {
        "doc-depth-built-array" | "doc-depth-built-object" => 512,
        "doc-depth-parsed" => 127,
        "deep-equal-objects" | "deep-equal-arrays" => 512,
        "doc-width" | "segments" | "bracket-segments" | "segments-after-empty" | "bracket-segments-after-empty" | "union" | "or-chain" | "and-chain" | "blank-run" | "long-name" | "long-number" | "long-exponent" | "singular-steps" | "slice-chain" => 16384,
        _ => 128,
    }
}

fn build_deep(n: usize, object: bool) -> Value {
    let mut v = json!({"a": 1, "b": [1, 2]});
    for _ in 0..n {
        v = if object { json!({"a": v}) } else { Value::Array(vec![v]) };
    }
    v
}

/// drop without recursion (serde_json's Drop for a deeply nested Value recurses by itself)
fn forget(v: Value) {
    std::mem::forget(v);
}

impl Set {
    pub fn new(tier: Tier, seed: u64) -> Set {
        let mut rng = Rng::stream(seed, 8);
        let mut cases: Vec<Case> = vec![];
        let rec = Recognisers::new();
        // (i) valid and near-valid corpora
        let der = Deriver { g: &rec.strict, max_depth: 12, rep_pm: 400, s_pm: 150 };
        let qcfg = gen::QueryCfg { ext_funcs: true, ..Default::default() };
        let n = tier.pick(4000, 80_000);
        for k in 0..n {
            let s = if k % 2 == 0 { der.derive("jsonpath-query", &mut rng) } else { oracle::render::render(&gen::random_query(&mut rng, &qcfg), &mut oracle::render::Spelling::random(&mut rng)) };
            if s.len() > 400 {
                continue;
            }
            cases.push(Case::Str(gen::mutate(&s, &mut rng), "mutant"));
            cases.push(Case::Str(gen::mutate(&gen::mutate(&s, &mut rng), &mut rng), "double-mutant"));
            cases.push(Case::Str(s, "corpus"));
        }
        for s in crate::c06::curated_valid() {
            cases.push(Case::Str(s.to_string(), "curated"));
        }
        for (s, _) in crate::c06::near_miss_table() {
            cases.push(Case::Str(s.to_string(), "near-miss"));
        }
        // (ii) arbitrary strings
        let toks = gen::tokens();
        for k in 0..tier.pick(6000, 120_000) {
            let s: String = match k % 4 {
                0 => {
                    let bytes: Vec<u8> = (0..rng.below(24)).map(|_| rng.below(256) as u8).collect();
                    format!("${}", String::from_utf8_lossy(&bytes))
                }
                1 => (0..rng.below(16)).map(|_| char::from_u32([rng.below(0x80) as u32, rng.below(0x3000) as u32, 0x10000 + rng.below(0x10000) as u32, 0x300 + rng.below(0x70) as u32][rng.below(4) as usize]).unwrap_or('\u{fffd}')).collect(),
                _ => {
                    let mut s = String::from(if rng.chance(9, 10) { "$" } else { "" });
                    for _ in 0..rng.below(14) {
                        s.push_str(*rng.pick(&toks[..]));
                    }
                    s
                }
            };
            cases.push(Case::Str(s, "arbitrary"));
        }
        // (iii) integer extremes at every integer position
        let ints: [&str; 16] = ["9007199254740991", "-9007199254740991", "9007199254740992", "-9007199254740992", "9223372036854775807", "-9223372036854775808", "9223372036854775808", "-9223372036854775809", "18446744073709551616", "99999999999999999999999", "-99999999999999999999999", "4294967296", "-4294967296", "2147483648", "-2147483649", "0"];
        for i in ints {
            for t in ["$[{}]", "$[{}:]", "$[:{}]", "$[::{}]", "$[{}:{}:{}]", "$[1:{}:-1]", "$[?@[{}] == 1]", "$[?$[{}] == 1]", "$[?@.a == {}]", "$[?{} == {}]", "$[?@ > {}.5]", "$[?@ < {}e2]", "$[?length(@) == {}]", "$..[{}]", "$[?@[{}:]]", "$[?@[::{}]]", "$[0,{}]", "$[?count(@[{}]) == 1]"] {
                cases.push(Case::Str(t.replace("{}", i), "integer-extremes"));
            }
        }
        // long multi-byte text where the parser's hand-written post-checks produce messages
        for pad_char in ['\u{e9}', '\u{65e5}', '\u{1f600}', 'x'] {
            for n in [1usize, 7, 15, 16, 17, 23, 24, 25, 31, 40, 47, 48, 49, 63, 64, 65, 100, 255, 256, 257] {
                for shift in ["", "a", "ab", "abc"] {
                    let pad: String = std::iter::repeat(pad_char).take(n).collect();
                    for t in ["$. {S}{P}", "$.. {S}{P}", "$[?@. {S}{P} == 1]", "$[?length (@.{S}{P}) == 1]", "$[?length(@.{S}{P})]", "$[?match(@.{S}{P}, 'a') == true]", "$.{S}{P} ", "$[?count(@.{S}{P}, 1) == 1]", "$['{S}{P}'", "$[?@.{S}{P} == 01]", "$[?value(1, @.{S}{P}) == 1]"] {
                        cases.push(Case::Str(t.replace("{S}", shift).replace("{P}", &pad), "long-multibyte-near-miss"));
                    }
                }
            }
        }
        // long valid queries of multi-byte characters at every byte alignment; notable characters
        // at every kind of position; 3-/4-operand formulas in every context
        for s in gen::long_multibyte_queries() {
            cases.push(Case::Str(s, "long-multibyte-valid"));
        }
        for s in gen::notable_char_strings() {
            cases.push(Case::Str(s, "notable-characters"));
        }
        for s in gen::composition_queries() {
            cases.push(Case::Str(s, "compositions"));
        }
        for (k, s) in gen::syntax_inside_strings().into_iter().enumerate() {
            if k % 3 == 0 {
                cases.push(Case::Str(s, "syntax-inside-strings"));
            }
        }
        for s in gen::long_number_literal_queries() {
            cases.push(Case::Str(s, "long-number-literals"));
        }
        for (k, s) in gen::double_fault_strings().into_iter().enumerate() {
            if k % 3 == 0 {
                cases.push(Case::Str(s, "double-faults"));
            }
        }
        // programmatic queries with extreme integers inside the I-JSON range (and the i64 limits,
        // which are outside the property's quantifier and only explored)
        use oracle::ast::*;
        let m = 9007199254740991i64;
        for a in [m, -m, m - 1, 1 << 40, -(1 << 40), 0, 1, -1] {
            for b in [m, -m, 0, 2, -2] {
                cases.push(Case::Prog(Query::root(vec![Segment::child(Selector::Slice(Some(a), Some(b), Some(if b == 0 { 1 } else { b })))]), "programmatic"));
                cases.push(Case::Prog(Query::root(vec![Segment::child(Selector::Index(a)), Segment::desc(Selector::Index(b))]), "programmatic"));
                cases.push(Case::Prog(
                    Query::root(vec![Segment::child(Selector::Filter(Or::single(Basic::Cmp { lhs: Comparable::Singular { root: Root::Current, steps: vec![SingStep::Index(a)] }, op: CmpOp::Lt, rhs: Comparable::Lit(Literal::int(b)) })))]),
                    "programmatic",
                ));
            }
        }
        // names with arbitrary content in programmatic queries
        for n in gen::hostile_keys() {
            cases.push(Case::Prog(Query::root(vec![Segment::child(Selector::Name(n.clone())), Segment::desc(Selector::Name(n))]), "programmatic"));
        }
        // (vi) regex stress
        for p in ["(a*)*b", "(a|aa)+$", "a{1000}{1000}", "(((a{100}){100}){100})", "\\p{L}{5000}", "[", "(?i)(?s)(?m)a", "(?P<n>a)(?P=n)", "\\1", "a**", "(?=a)", "\\x{110000}", "\\u{D800}"] {
            cases.push(Case::Str(format!("$[?match(@, {})]", oracle::json::json_string(p).replace('"', "'")), "regex-stress"));
            cases.push(Case::Str(format!("$[?search(@, $.p)]"), "regex-stress"));
        }
        for p in crate::c10::patterns() {
            let mut lit = String::new();
            oracle::render::quote(p, false, oracle::render::EscStyle::Minimal, &mut None, &mut lit);
            cases.push(Case::Str(format!("$[?search(@, {})]", lit), "regex-stress"));
            cases.push(Case::Str(format!("$..[?match(@, {}) || search(@.a, {})]", lit, lit), "regex-stress"));
        }
        let big = "a".repeat(100_000);
        cases.push(Case::Str(format!("$[?match(@, '({})*')]", big), "regex-stress"));
        cases.push(Case::Str(format!("$[?search(@, '{}')]", "(".repeat(5000)), "regex-stress"));
        // (v) nesting ladders
        for k in QUERY_LADDERS {
            let rungs: &[usize] = if k.starts_with("fn-nest-broken") || k.starts_with("fn-nest-compare") { &EXP_RUNGS } else { &RUNGS };
            for r in rungs {
                // the flat segment chains are cheap: the quick tier runs them to the top rung
                let cheap = matches!(k, "segments" | "bracket-segments" | "segments-after-empty" | "bracket-segments-after-empty");
                if tier == Tier::Quick && (*r > 16384 || *r == 20) && !cheap {
                    continue;
                }
                // these two measure time (work must not double per level); their stack depth is
                // that of the nested-filter ladder, whose open finding starts at 4096
                if k.ends_with("count-filter-nest") && *r > 1024 {
                    continue;
                }
                cases.push(Case::Ladder(k, *r));
            }
        }
        for k in DOC_LADDERS {
            for r in RUNGS {
                if tier == Tier::Quick && r > 16384 {
                    continue;
                }
                // these measure time; their stack depth is that of any recursive walk of the value
                if k.starts_with("deep-equal") && r > 1024 {
                    continue;
                }
                cases.push(Case::Ladder(k, r));
            }
        }
        // hostile documents: (iv) empty and scalar roots, curated hostile documents
        let mut docs: Vec<Value> = vec![json!(null), json!(true), json!(0), json!(""), json!("abc"), json!([]), json!({}), json!([[]]), json!({"": {"": []}}), json!({"a": 1, "p": "(a*)*b", "b": [1, 2, {"a": [3]}]}), json!([1, "a", null, [1, [2, [3]]], {"a": {"a": {"a": 1}}}])];
        docs.extend(gen::curated_docs().into_iter().filter(|d| d.node_count() < 300).map(|d| d.to_value()));
        docs.push(Value::Array((0..300).map(|i| json!(i)).collect()));
        docs.push(json!({"w": (0..1025).map(|i| json!({"i": i})).collect::<Vec<_>>(), "s": "x".repeat(300)}));
        docs.push(json!(["aaaaaaaaaaaaaaaaaaaaaaaaaaaaaaaaaaaaaaaaaaaaaaaaaaaaaaaaaaaaaaaaaaaaaaaaaaaaaaaaaaaaaaaaaaaaaaaaaaaaaaaaaaaaaaaaaaac"]));
        let ladder_doc = json!([{"a": {"a": {"a": 1}}, "b": [1, 2]}, [0, [0, [0, 1]]], 2, "a", {"a": "a"}]);
        Set { cases, docs, ladder_doc }
    }

    fn run_str(&self, q: &str, idx: usize, all_docs: bool, light: bool, acc: &mut Acc, out: &mut Vec<(String, Value)>) {
        let describe = |what: &str| json!({"kind":"crash","query": q, "entry_point": what});
        let parsed = match libapi::parse(q) {
            Ok(Ok(p)) => Some(p),
            Ok(Err(_)) => None,
            Err(p) => {
                out.push((format!("parse_json_path panicked on {:?}: {}", short(q), p), describe("parse_json_path")));
                return;
            }
        };
        if idx % 401 == 0 {
            acc.sample(json!({"query": short(q), "parses": parsed.is_some(), "entry_points": ["parse_json_path", "query", "query_with_path", "query_only_path", "js_path_process", "reference", "reference_mut"]}));
        }
        if parsed.is_some() {
            acc.count("strings_parsed_ok", 1);
            if q.len() > 3 {
                acc.nontrivial(q.as_bytes());
            }
        }
        // two documents per string (all of them over time), every entry point
        let n_docs = if all_docs { self.docs.len() } else if light { 1 } else { 2 };
        for k in 0..n_docs {
            // ladder queries run on one fixed document on which their shapes select something
            // (or an empty, not absent, node list) - a scalar root would end them at once
            let d = if light { &self.ladder_doc } else { &self.docs[(idx * 2 + k) % self.docs.len()] };
            match libapi::query_with_path(q, d) {
                LibOutcome::Panic(p) => out.push((format!("query_with_path panicked on {:?}: {}", short(q), p), describe("query_with_path"))),
                LibOutcome::Err(e) if parsed.is_some() => out.push((format!("a query that parse_json_path accepts fails in query_with_path: {:?}: {}", short(q), e), describe("query_with_path"))),
                _ => {}
            }
            if light {
                if let Some(jq) = &parsed {
                    if let LibOutcome::Err(e) = libapi::process(jq, d) {
                        out.push((format!("evaluating the successfully parsed query {:?} failed: {}", short(q), e), describe("js_path_process")));
                    }
                }
                continue;
            }
            if let Err(p) = libapi::query_vals(q, d) {
                out.push((format!("query panicked on {:?}: {}", short(q), p), describe("query")));
            }
            if let Err(p) = libapi::query_paths(q, d) {
                out.push((format!("query_only_path panicked on {:?}: {}", short(q), p), describe("query_only_path")));
            }
            if let Some(jq) = &parsed {
                match libapi::process(jq, d) {
                    LibOutcome::Ok(_) => acc.count("process_of_parsed_query_ok", 1),
                    LibOutcome::Err(e) => out.push((format!("evaluating the successfully parsed query {:?} failed: {}", short(q), e), describe("js_path_process"))),
                    LibOutcome::Panic(p) => out.push((format!("js_path_process panicked on {:?}: {}", short(q), p), describe("js_path_process"))),
                }
            }
            if k == 0 {
                let r = std::panic::catch_unwind(std::panic::AssertUnwindSafe(|| {
                    let _ = d.reference(q.to_string());
                    let mut c = d.clone();
                    if let Some(slot) = c.reference_mut(q.to_string()) {
                        *slot = json!(1);
                    }
                }));
                if r.is_err() {
                    out.push((format!("reference/reference_mut panicked on {:?}: {}", short(q), libapi::last_panic_loc()), describe("reference")));
                }
            }
        }
    }
}

fn short(q: &str) -> String {
    if q.chars().count() > 160 {
        format!("{}...({} chars)", q.chars().take(120).collect::<String>(), q.chars().count())
    } else {
        q.to_string()
    }
}

/// runs `f` on a thread with a stack of the given size: 8 MiB, the default of a main thread, in
/// general; 2 MiB, the default of a thread spawned by Rust's std, for the flat segment chains
/// (a query that is long but not nested must not need stack in proportion to its length)
fn on_stack<F: FnOnce() + Send>(bytes: usize, f: F) {
    std::thread::scope(|s| {
        let h = std::thread::Builder::new().stack_size(bytes).spawn_scoped(s, f).expect("spawn");
        let _ = h.join();
    });
}

impl CaseSet for Set {
    fn len(&self) -> usize {
        self.cases.len()
    }
    fn cpu_budget_s(&self, _idx: usize) -> f64 {
        30.0
    }
    fn describe(&self, idx: usize) -> Value {
        match &self.cases[idx] {
            Case::Str(q, fam) => json!({"kind":"crash","query": q, "family": fam}),
            Case::Prog(q, fam) => json!({"kind":"crash","programmatic_query": format!("{:?}", q), "family": fam}),
            Case::Ladder(k, r) => json!({"kind":"ladder","ladder": k, "rung": r, "query": ladder_query(k, *r).map(|q| short(&q))}),
        }
    }
    fn run(&self, idx: usize, acc: &mut Acc) -> Vec<(String, Value)> {
        let mut out = vec![];
        acc.evaluations += 1;
        let outm = Mutex::new(&mut out);
        let accm = Mutex::new(&mut *acc);
        let stack = match &self.cases[idx] {
            Case::Ladder(k, _) if matches!(*k, "segments" | "bracket-segments" | "segments-after-empty" | "bracket-segments-after-empty") => 2 << 20,
            _ => 8 << 20,
        };
        on_stack(stack, || {
            let mut out_l = vec![];
            let mut acc_l = Acc::default();
            match &self.cases[idx] {
                Case::Str(q, fam) => {
                    acc_l.count(&format!("family_{}", fam), 1);
                    self.run_str(q, idx, matches!(*fam, "regex-stress" | "integer-extremes" | "curated" | "near-miss"), false, &mut acc_l, &mut out_l);
                }
                Case::Prog(q, fam) => {
                    acc_l.count(&format!("family_{}", fam), 1);
                    let jq = convert::query(q);
                    acc_l.nontrivial(format!("{:?}", q).as_bytes());
                    for d in self.docs.iter().take(14) {
                        match libapi::process(&jq, d) {
                            LibOutcome::Ok(_) => {}
                            o => out_l.push((format!("programmatically built query {:?}: {}", q, o.brief()), self.describe(idx))),
                        }
                    }
                }
                Case::Ladder(kind, rung) => {
                    acc_l.count("ladder_cases", 1);
                    acc_l.nontrivial(format!("{}:{}", kind, rung).as_bytes());
                    if let (true, Some(q)) = (kind.ends_with("count-filter-nest"), ladder_query(kind, *rung)) {
                        // on a document nested as deep as the query: single-element arrays
                        let mut d = json!([1]);
                        for _ in 0..*rung + 1 {
                            d = Value::Array(vec![d]);
                        }
                        match libapi::query_with_path(&q, &d) {
                            LibOutcome::Ok(ns) if ns.len() == 1 => {}
                            LibOutcome::Ok(ns) => out_l.push((format!("the {} ladder query at rung {} selects {} nodes instead of 1", kind, rung, ns.len()), self.describe(idx))),
                            o => out_l.push((format!("the {} ladder at rung {}: {}", kind, rung, o.brief()), self.describe(idx))),
                        }
                        forget(d);
                    } else if let Some(q) = ladder_query(kind, *rung) {
                        self.run_str(&q, idx, false, true, &mut acc_l, &mut out_l);
                    } else {
                        if kind.starts_with("deep-equal") {
                            // two structurally equal values nested `rung` levels, compared by
                            // == / != / <= (work must grow with the size, not double per level)
                            let mut v = json!({"leaf": [1, 2.0, "s"], "k": null});
                            for i in 0..*rung {
                                v = if *kind == "deep-equal-objects" { json!({"a": v, "k": i}) } else { Value::Array(vec![json!(i), v]) };
                            }
                            let d = json!({"x": v.clone(), "y": [v.clone(), 1, v]});
                            for (q, want) in [("$.y[?@ == $.x]", 2usize), ("$.y[?@ != $.x]", 1), ("$.y[?@ <= $.x]", 2), ("$.y[?$.x == @ && @ == @]", 2)] {
                                match libapi::query_with_path(q, &d) {
                                    LibOutcome::Ok(ns) if ns.len() == want => {}
                                    LibOutcome::Ok(ns) => out_l.push((format!("{} on the {} ladder at rung {} selects {} nodes instead of {}", q, kind, rung, ns.len(), want), self.describe(idx))),
                                    o => out_l.push((format!("{} on the {} ladder at rung {}: {}", q, kind, rung, o.brief()), self.describe(idx))),
                                }
                            }
                            forget(d);
                            outm.lock().unwrap().extend(out_l);
                            let mut a = accm.lock().unwrap();
                            let merged = Acc::merge(vec![std::mem::take(&mut **a), acc_l]);
                            **a = merged;
                            return;
                        }
                        let queries = ["$..*", "$..a", "$..[0]", "$[?@..a]", "$[*]", "$[::-1]", "$[?@ > 1]", "$[?count(@..*) > 1]", "$..[?@.a]"];
                        let doc: Option<Value> = match *kind {
                            "doc-depth-built-array" => Some(build_deep(*rung, false)),
                            "doc-depth-built-object" => Some(build_deep(*rung, true)),
                            "doc-depth-parsed" => serde_json::from_str(&format!("{}1{}", "[".repeat(*rung), "]".repeat(*rung))).ok(),
                            "doc-width" => Some(Value::Array((0..*rung as i64).map(|i| json!(i)).collect())),
                            _ => None,
                        };
                        if let Some(d) = doc {
                            // a path as deep as the document (every segment finds its node)
                            let matching: Option<String> = match *kind {
                                "doc-depth-built-array" => Some(format!("${}", "[0]".repeat(*rung))),
                                "doc-depth-built-object" => Some(format!("${}.b[-1]", ".a".repeat(*rung))),
                                _ => None,
                            };
                            if let Some(q) = &matching {
                                match libapi::query_with_path(q, &d) {
                                    LibOutcome::Ok(ns) if ns.len() == 1 => {}
                                    LibOutcome::Ok(ns) => out_l.push((format!("a path of {} segments into the {} ladder document at rung {} selects {} nodes instead of 1", rung, kind, rung, ns.len()), self.describe(idx))),
                                    o => out_l.push((format!("a path of {} segments on the {} ladder at rung {}: {}", rung, kind, rung, o.brief()), self.describe(idx))),
                                }
                            }
                            for q in queries {
                                match libapi::query_with_path(q, &d) {
                                    LibOutcome::Ok(_) => {}
                                    o => out_l.push((format!("{} on the {} ladder at rung {}: {}", q, kind, rung, o.brief()), self.describe(idx))),
                                }
                            }
                            forget(d);
                        } else {
                            acc_l.count("ladder_docs_not_constructible", 1);
                        }
                    }
                }
            }
            outm.lock().unwrap().extend(out_l);
            let mut a = accm.lock().unwrap();
            let merged = Acc::merge(vec![std::mem::take(&mut **a), acc_l]);
            **a = merged;
        });
        out
    }
}

#[derive(Default)]
struct LadderLog {
    /// (profile, ladder) -> rungs that died / timed out
    failed: BTreeMap<(String, String), Vec<(usize, String)>>,
}

pub fn run(ctx: &Ctx) -> Result<Evidence, String> {
    let set = Set::new(ctx.tier, ctx.seed);
    // Known findings of C08 are ladder rungs. Their witnesses are cases of this very run, so
    // they are not replayed separately (each costs up to the CPU budget): a ladder signature
    // only ever explains deaths of that ladder at or above the recorded rung, and the
    // KNOWN-FINDING line is printed after the run, only if the witness rung failed again.
    let mut armed: Armed = crate::findings::arm(ctx, &|w: &Value| if w.get("kind").and_then(|k| k.as_str()) == Some("ladder") { Some(WitnessState::Deferred) } else { None })?;
    let ladder_findings: Vec<crate::findings::Finding> = crate::findings::load()?.into_iter().filter(|f| f.property == "C08" && f.status == "open" && f.witness.get("kind").and_then(|k| k.as_str()) == Some("ladder")).collect();
    for f in &ladder_findings {
        armed.triggers.insert(f.trigger.clone());
        armed.ids.push((f.trigger.clone(), f.id.clone()));
        armed.params.push((f.trigger.clone(), f.witness.clone()));
    }
    let log = Mutex::new(LadderLog::default());
    let mut total = Acc::default();
    let mut profiles = vec![];
    for profile in ["release", "checked"] {
        let exe = exe_for(profile);
        if !exe.exists() {
            return Err(format!("{} not built (run ./vf setup)", exe.display()));
        }
        let bulk = Part::new(&set, false);
        let iso = Isolation { exe: exe.clone(), args: vec!["worker".into(), "C08".into(), "bulk".into(), ctx.tier.name().into()], stack_bytes: None, mem_bytes: Some(16 << 30), env: vec![], chunk: None, max_deaths: 40 };
        let acc1 = run_isolated_c08(ctx, &set, &bulk, &iso, profile, &armed, &log);
        let ladders = Part::new(&set, true);
        let iso = Isolation { exe, args: vec!["worker".into(), "C08".into(), "ladders".into(), ctx.tier.name().into()], stack_bytes: None, mem_bytes: Some(16 << 30), env: vec![], chunk: Some(1), max_deaths: 100000 };
        let acc2 = run_isolated_c08(ctx, &set, &ladders, &iso, profile, &armed, &log);
        let acc = Acc::merge(vec![acc1, acc2]);
        profiles.push(json!({"profile": profile, "cases": acc.evaluations}));
        total = Acc::merge(vec![total, acc]);
    }
    // the unoptimised build: the required rungs of every ladder (and the flat chains to the top)
    {
        let exe = exe_for("unopt");
        if !exe.exists() {
            return Err(format!("{} not built (run ./vf setup)", exe.display()));
        }
        let part = Part::required_ladders(&set);
        let iso = Isolation { exe, args: vec!["worker".into(), "C08".into(), "required-ladders".into(), ctx.tier.name().into()], stack_bytes: None, mem_bytes: Some(16 << 30), env: vec![], chunk: Some(1), max_deaths: 100000 };
        let acc = run_isolated_c08(ctx, &set, &part, &iso, "unopt", &armed, &log);
        profiles.push(json!({"profile": "unopt", "cases": acc.evaluations, "what": "ladder rungs up to the required bound, flat segment chains to the top"}));
        total = Acc::merge(vec![total, acc]);
    }
    // deepest passing rung per ladder and profile
    let l = log.lock().unwrap();
    for f in &ladder_findings {
        let kind = f.witness["ladder"].as_str().unwrap_or("");
        let rung = f.witness["rung"].as_u64().unwrap_or(0) as usize;
        let failed_again = l.failed.get(&("release".to_string(), kind.to_string())).map(|v| v.iter().any(|x| x.0 == rung)).unwrap_or(false);
        if failed_again {
            ctx.known_lines.lock().unwrap().push(format!("KNOWN-FINDING: property=C08 {} {}", f.id, f.what_fails));
        } else {
            eprintln!("note: open finding {} did not reproduce in this run (rung {} of ladder {} not reached or passing)", f.id, rung, kind);
        }
    }
    let mut ladders = serde_json::Map::new();
    for profile in ["release", "checked", "unopt"] {
        for k in QUERY_LADDERS.iter().chain(DOC_LADDERS.iter()) {
            let failed: Vec<usize> = l.failed.get(&(profile.to_string(), k.to_string())).map(|v| v.iter().map(|x| x.0).collect()).unwrap_or_default();
            let first_fail = failed.iter().min().copied();
            let rungs: Vec<usize> = set.cases.iter().filter_map(|c| match c { Case::Ladder(kk, r) if kk == k && (profile != "unopt" || *r <= required_rung(k) || is_flat_chain(k)) => Some(*r), _ => None }).collect();
            let deepest_pass = rungs.iter().filter(|r| first_fail.map(|f| **r < f).unwrap_or(true)).max().copied();
            ladders.insert(format!("{}:{}", profile, k), json!({"required_rung": required_rung(k), "deepest_passing_rung": deepest_pass, "first_failing_rung": first_fail}));
        }
    }
    let mut ev = Evidence::new("cases: (i) ABNF-derived and AST-rendered queries and their single and double mutants, curated valid spellings, the near-miss table; (ii) arbitrary strings (random bytes as lossy UTF-8, random Unicode incl. astral and combining characters, token soup); (iii) extreme integers (+-(2^53-1), +-2^53, i64 limits, 20+ digits) at every integer position; programmatically built queries with extreme in-range integers and arbitrary names; (iv) empty, scalar and hostile root documents; (v) nesting ladders for 18 query shapes and 4 document shapes at rungs 16..16384 (thorough: 100000); (vi) regex stress; (vii) ladders of comparisons over count(@[?...]) and of structurally equal objects / arrays nested 16..1024 levels (work must not double per level); long valid multi-byte queries, notable characters at every position, compositions. The flat segment chains run on 2 MiB stacks to rung 100000; a third, unoptimised build runs all required ladder rungs. Every string goes through parse_json_path, query, query_with_path, query_only_path, js_path_process of the parsed query, reference and reference_mut, on an 8 MiB stack inside an isolated worker, under the release and the overflow-checked build. Refutation = panic, worker death (signal/abort), more than 30 CPU-seconds for a case, or Err from evaluating a successfully parsed query. Non-trivial = distinct strings that parse, programmatic queries and ladder rungs.");
    ev.set("exhaustive", json!(false));
    ev.set("profiles", json!(profiles));
    ev.set("ladders", Value::Object(ladders));
    ev.assume("termination = within 30 CPU-seconds of the worker (machine load does not inflate CPU time); required nesting bound: 128 levels for queries and parsed documents, 512 for programmatically built documents, 16384 for flat repetition, on an 8 MiB stack");
    ev.min_nontrivial = 1000;
    total.into_evidence(&mut ev);
    Ok(ev)
}

/// the ladder cases (each in its own process, so that deaths and CPU-time overruns overlap) or
/// everything else (chunked)
pub struct Part<'a> {
    set: &'a Set,
    idx: Vec<usize>,
}
impl<'a> Part<'a> {
    pub fn new(set: &'a Set, ladders: bool) -> Part<'a> {
        Part { set, idx: (0..set.cases.len()).filter(|i| matches!(set.cases[*i], Case::Ladder(..)) == ladders).collect() }
    }
    /// the ladder rungs every build must pass: up to the required rung of each ladder, and the
    /// flat segment chains to the top
    pub fn required_ladders(set: &'a Set) -> Part<'a> {
        Part { set, idx: (0..set.cases.len()).filter(|i| matches!(&set.cases[*i], Case::Ladder(k, r) if *r <= required_rung(k) || is_flat_chain(k))).collect() }
    }
}

fn is_flat_chain(kind: &str) -> bool {
    matches!(kind, "segments" | "bracket-segments" | "segments-after-empty" | "bracket-segments-after-empty")
}
impl<'a> CaseSet for Part<'a> {
    fn len(&self) -> usize {
        self.idx.len()
    }
    fn run(&self, i: usize, acc: &mut Acc) -> Vec<(String, Value)> {
        self.set.run(self.idx[i], acc)
    }
    fn describe(&self, i: usize) -> Value {
        self.set.describe(self.idx[i])
    }
    fn cpu_budget_s(&self, _i: usize) -> f64 {
        30.0
    }
}

struct OneCase<'a> {
    set: &'a Set,
    idx: usize,
}
impl<'a> CaseSet for OneCase<'a> {
    fn len(&self) -> usize {
        1
    }
    fn run(&self, _i: usize, acc: &mut Acc) -> Vec<(String, Value)> {
        self.set.run(self.idx, acc)
    }
    fn describe(&self, _i: usize) -> Value {
        self.set.describe(self.idx)
    }
    fn cpu_budget_s(&self, _i: usize) -> f64 {
        30.0
    }
}

pub fn worker_set(family: &str, tier: Tier, seed: u64) -> Box<dyn CaseSet> {
    let set = Set::new(tier, seed);
    if let Some(i) = family.strip_prefix("one:") {
        let idx: usize = i.parse().unwrap_or(0);
        // leak: the worker process ends right after
        let set: &'static Set = Box::leak(Box::new(set));
        Box::new(OneCase { set, idx })
    } else {
        let set: &'static Set = Box::leak(Box::new(set));
        if family == "required-ladders" {
            Box::new(Part::required_ladders(set))
        } else {
            Box::new(Part::new(set, family == "ladders"))
        }
    }
}

fn run_isolated_c08(ctx: &Ctx, set: &Set, part: &Part, iso: &Isolation, profile: &str, armed: &Armed, log: &Mutex<LadderLog>) -> Acc {
    run_isolated(ctx, part, iso, ctx.threads, &|pidx, death| {
        let idx = part.idx[pidx];
        let d = set.describe(idx);
        let how = match &death {
            Death::CpuTimeout(s) => format!("did not finish within the CPU budget ({:.0} CPU-seconds)", s),
            Death::Signal(sig, tail) => format!("worker killed by signal {} ({})", sig, tail.lines().last().unwrap_or("").chars().take(160).collect::<String>()),
            Death::Exit(code, tail) => format!("worker exited with {} ({})", code, tail.lines().last().unwrap_or("").chars().take(160).collect::<String>()),
            Death::Stalled(s) => format!("blocked: the call used no CPU time for {:.0} s and never returned (deadlock)", s),
            Death::WallTimeout => {
                ctx.add_inconclusive("wall-clock watchdog", 1);
                return;
            }
        };
        // a CPU overrun of a generated query is a refutation only if the query is not expensive
        // by its own meaning: nested absolute descendant queries inside filters over a document
        // of a thousand nodes cost n^3 and more for any evaluator. Arbiter: the reference
        // evaluator with its step budget on the same documents.
        if let (Case::Str(q, _), Death::CpuTimeout(_)) = (&set.cases[idx], &death) {
            if let Some(ast) = oracle::parse::analyze(q).ast {
                let inherent = (0..set.docs.len()).any(|k| match oracle::eval::eval_locs(&ast, &oracle::json::J::from_value(&set.docs[k]), oracle::eval::Dev::default()) {
                    Err(_) => true,
                    Ok((_, _, steps)) => steps > 20_000_000,
                });
                if inherent {
                    ctx.add_skipped("cpu-overrun-of-a-query-that-is-expensive-by-its-meaning (reference evaluator exceeds 20 M steps)", 1);
                    return;
                }
            }
        }
        if let Case::Ladder(kind, rung) = &set.cases[idx] {
            log.lock().unwrap().failed.entry((profile.to_string(), kind.to_string())).or_default().push((*rung, how.clone()));
            if *rung > required_rung(kind) && matches!(death, Death::CpuTimeout(_)) && armed.param(&format!("ladder:{}", kind)).is_none() {
                // beyond the required bound a CPU-budget overrun is an exploration result (run
                // time near the budget is not reproducible enough for a verdict): it is recorded
                // in the ladder table of the evidence, not reported
                ctx.add_skipped("ladder-cpu-overrun-beyond-required-rung", 1);
                return;
            }
            if *rung > required_rung(kind) {
                // beyond the required bound: exploration, compared with the recorded finding
                let trig = format!("ladder:{}", kind);
                if let Some(w) = armed.param(&trig) {
                    let first = w["rung"].as_u64().unwrap_or(u64::MAX) as usize;
                    if *rung >= first {
                        ctx.add_known(&armed.id_of(&trig), 1);
                        return;
                    }
                }
            } else {
                let trig = format!("ladder:{}", kind);
                if let Some(w) = armed.param(&trig) {
                    let first = w["rung"].as_u64().unwrap_or(u64::MAX) as usize;
                    if *rung >= first {
                        ctx.add_known(&armed.id_of(&trig), 1);
                        return;
                    }
                }
            }
            ctx.violate(&format!("[{} build] {} ladder at rung {} (required: {}): {}", profile, kind, rung, required_rung(kind), how), d);
        } else {
            ctx.violate(&format!("[{} build] {}: {}", profile, how, d), d);
        }
    })
}
