//! Run context shared by all monitors: tier, seed, verdict accounting, violation/replay files,
//! evidence writer, parallel runner. Exit codes: 0 held, 1 violation, 2 harness error.

use oracle::rng::fnv;
use serde_json::{json, Map, Value};
use std::collections::{BTreeMap, HashSet};
use std::path::PathBuf;
use std::sync::atomic::{AtomicUsize, Ordering};
use std::sync::Mutex;
use std::time::Instant;

#[derive(Debug, Clone, Copy, PartialEq, Eq)]
pub enum Tier {
    Quick,
    Thorough,
}

impl Tier {
    pub fn name(self) -> &'static str {
        match self {
            Tier::Quick => "quick",
            Tier::Thorough => "thorough",
        }
    }
    pub fn pick<T>(self, q: T, t: T) -> T {
        match self {
            Tier::Quick => q,
            Tier::Thorough => t,
        }
    }
}

pub fn verif_dir() -> PathBuf {
    PathBuf::from(std::env::var("VERIF_DIR").unwrap_or_else(|_| "/verif".to_string()))
}

pub struct Violation {
    pub what: String,
    pub replay: Value,
}

pub struct Ctx {
    pub prop: String,
    pub tier: Tier,
    pub seed: u64,
    pub start: Instant,
    pub threads: usize,
    pub violations: Mutex<Vec<Violation>>,
    pub violation_count: AtomicUsize,
    pub known: Mutex<BTreeMap<String, u64>>,
    pub skipped: Mutex<BTreeMap<String, u64>>,
    pub inconclusive: Mutex<BTreeMap<String, u64>>,
    pub known_lines: Mutex<Vec<String>>,
}

impl Ctx {
    pub fn new(prop: &str, tier: Tier) -> Ctx {
        let seed = std::env::var("VERIF_SEED").ok().and_then(|s| s.trim().parse::<i64>().ok()).unwrap_or(0) as u64;
        let threads = std::env::var("VERIF_THREADS").ok().and_then(|s| s.parse().ok()).unwrap_or_else(|| std::thread::available_parallelism().map(|n| n.get()).unwrap_or(4));
        Ctx {
            prop: prop.to_string(),
            tier,
            seed,
            start: Instant::now(),
            threads,
            violations: Mutex::new(vec![]),
            violation_count: AtomicUsize::new(0),
            known: Mutex::new(BTreeMap::new()),
            skipped: Mutex::new(BTreeMap::new()),
            inconclusive: Mutex::new(BTreeMap::new()),
            known_lines: Mutex::new(vec![]),
        }
    }

    pub fn violate(&self, what: &str, replay: Value) {
        let n = self.violation_count.fetch_add(1, Ordering::SeqCst);
        if n < 20 {
            self.violations.lock().unwrap().push(Violation { what: what.to_string(), replay });
        }
    }
    pub fn add_known(&self, id: &str, n: u64) {
        *self.known.lock().unwrap().entry(id.to_string()).or_insert(0) += n;
    }
    pub fn add_skipped(&self, zone: &str, n: u64) {
        *self.skipped.lock().unwrap().entry(zone.to_string()).or_insert(0) += n;
    }
    pub fn add_inconclusive(&self, why: &str, n: u64) {
        *self.inconclusive.lock().unwrap().entry(why.to_string()).or_insert(0) += n;
    }

    /// The in-process workload is blocked inside the library (see par_run): report and leave.
    pub fn abort_stalled(&self, done: usize, total: usize, idle_s: f64, cpu_s: f64) -> ! {
        self.violate(
            &format!("the library blocks: no evaluation returned for {:.0} s while the process used {:.1} s of CPU (a deadlock, not slowness); {} of {} cases had completed on {} threads", idle_s, cpu_s, done, total, self.threads),
            json!({"kind": "stall", "completed_cases": done, "total_cases": total, "threads": self.threads, "note": "re-run the check: the same concurrent workload is regenerated from the seed"}),
        );
        let mut ev = Evidence::new("stalled run: the counts are the cases completed before the library blocked");
        ev.set("evaluations", json!(done.max(1)));
        ev.set("distinct_nontrivial", json!(done.max(2)));
        ev.sample(json!({"stalled_after_cases": done}));
        ev.min_nontrivial = 0;
        let code = self.finish(ev);
        std::process::exit(if code == 0 { 1 } else { code });
    }

    /// Writes replay files, prints VIOLATION lines, writes the evidence file, returns exit code.
    pub fn finish(&self, mut ev: Evidence) -> i32 {
        let dir = verif_dir();
        let _ = std::fs::create_dir_all(dir.join("replays"));
        let _ = std::fs::create_dir_all(dir.join("evidence"));
        let total = self.violation_count.load(Ordering::SeqCst);
        let vs = self.violations.lock().unwrap();
        let mut seen = HashSet::new();
        for v in vs.iter() {
            let mut r = v.replay.clone();
            if let Value::Object(m) = &mut r {
                m.insert("property".into(), json!(self.prop));
                m.insert("what".into(), json!(v.what));
                m.insert("seed".into(), json!(self.seed));
                m.insert("tier".into(), json!(self.tier.name()));
            }
            let text = serde_json::to_string_pretty(&r).unwrap_or_default();
            let h = fnv(text.as_bytes());
            if !seen.insert(h) {
                continue;
            }
            let path = dir.join("replays").join(format!("{}-{:016x}.json", self.prop, h));
            if let Err(e) = std::fs::write(&path, text) {
                eprintln!("HARNESS-ERROR cannot write replay file: {}", e);
                return 2;
            }
            println!("VIOLATION property={} replay={}", self.prop, path.display());
            println!("  what: {}", v.what.chars().take(600).collect::<String>());
        }
        if total > vs.len() {
            println!("({} further violations not written out)", total - vs.len());
        }
        for l in self.known_lines.lock().unwrap().iter() {
            println!("{}", l);
        }
        ev.cov.insert("known_finding_cases".into(), json!(*self.known.lock().unwrap()));
        ev.cov.insert("skipped_unsettled".into(), json!(*self.skipped.lock().unwrap()));
        ev.cov.insert("inconclusive".into(), json!(*self.inconclusive.lock().unwrap()));
        let evaluations = ev.cov.get("evaluations").and_then(|v| v.as_u64()).unwrap_or(0);
        let inconc: u64 = self.inconclusive.lock().unwrap().values().sum();
        let doc = json!({
            "property_id": self.prop,
            "tier": self.tier.name(),
            "seed": self.seed as i64,
            "level": "exploration",
            "coverage": Value::Object(ev.cov.clone()),
            "assumptions": ev.assumptions,
            "wall_s": (self.start.elapsed().as_secs_f64() * 100.0).round() / 100.0,
            "violations": total,
        });
        let path = dir.join("evidence").join(format!("{}.json", self.prop));
        if let Err(e) = std::fs::write(&path, serde_json::to_string_pretty(&doc).unwrap_or_default()) {
            eprintln!("HARNESS-ERROR cannot write evidence: {}", e);
            return 2;
        }
        println!(
            "{} {} seed={} evaluations={} distinct_nontrivial={} violations={} known={:?} skipped={:?} inconclusive={:?} wall={:.1}s",
            self.prop,
            self.tier.name(),
            self.seed,
            evaluations,
            ev.cov.get("distinct_nontrivial").and_then(|v| v.as_u64()).unwrap_or(0),
            total,
            *self.known.lock().unwrap(),
            *self.skipped.lock().unwrap(),
            *self.inconclusive.lock().unwrap(),
            self.start.elapsed().as_secs_f64()
        );
        if total > 0 {
            return 1;
        }
        if evaluations == 0 || ev.cov.get("distinct_nontrivial").and_then(|v| v.as_u64()).unwrap_or(0) < ev.min_nontrivial {
            eprintln!("HARNESS-ERROR the run observed too little (evaluations={}, distinct_nontrivial below the stated minimum {})", evaluations, ev.min_nontrivial);
            return 2;
        }
        if inconc * 100 > evaluations.max(1) {
            eprintln!("HARNESS-ERROR inconclusive share above 1% ({} of {})", inconc, evaluations);
            return 2;
        }
        0
    }
}

fn gcd(a: usize, b: usize) -> usize {
    if b == 0 {
        a
    } else {
        gcd(b, a % b)
    }
}

pub fn self_cpu_seconds() -> f64 {
    let s = std::fs::read_to_string("/proc/self/stat").unwrap_or_default();
    let rest = match s.rfind(')') {
        Some(i) => &s[i + 2..],
        None => return 0.0,
    };
    let f: Vec<&str> = rest.split_whitespace().collect();
    let g = |k: usize| f.get(k).and_then(|x| x.parse::<f64>().ok()).unwrap_or(0.0);
    (g(11) + g(12)) / 100.0
}

pub struct Evidence {
    pub cov: Map<String, Value>,
    pub assumptions: Vec<String>,
    pub min_nontrivial: u64,
}

impl Evidence {
    pub fn new(rule: &str) -> Evidence {
        let mut cov = Map::new();
        cov.insert("rule".into(), json!(rule));
        cov.insert("evaluations".into(), json!(0));
        cov.insert("distinct_nontrivial".into(), json!(0));
        cov.insert("samples".into(), json!([]));
        Evidence { cov, assumptions: vec![], min_nontrivial: 2 }
    }
    pub fn set(&mut self, k: &str, v: Value) {
        self.cov.insert(k.to_string(), v);
    }
    pub fn add(&mut self, k: &str, n: u64) {
        let cur = self.cov.get(k).and_then(|v| v.as_u64()).unwrap_or(0);
        self.cov.insert(k.to_string(), json!(cur + n));
    }
    pub fn sample(&mut self, v: Value) {
        if let Some(Value::Array(a)) = self.cov.get_mut("samples") {
            if a.len() < 12 {
                a.push(v);
            }
        }
    }
    pub fn assume(&mut self, s: &str) {
        self.assumptions.push(s.to_string());
    }
}

/// Per-worker accumulator most monitors use.
#[derive(Default)]
pub struct Acc {
    pub evaluations: u64,
    pub nontrivial: HashSet<u64>,
    pub samples: Vec<Value>,
    pub counters: BTreeMap<String, u64>,
    pub sets: BTreeMap<String, HashSet<String>>,
}

impl Acc {
    pub fn count(&mut self, k: &str, n: u64) {
        *self.counters.entry(k.to_string()).or_insert(0) += n;
    }
    pub fn mark(&mut self, set: &str, item: String) {
        self.sets.entry(set.to_string()).or_default().insert(item);
    }
    pub fn nontrivial(&mut self, key: &[u8]) {
        self.nontrivial.insert(fnv(key));
    }
    pub fn sample(&mut self, v: Value) {
        if self.samples.len() < 3 {
            self.samples.push(v);
        }
    }
    pub fn merge(accs: Vec<Acc>) -> Acc {
        let mut out = Acc::default();
        for a in accs {
            out.evaluations += a.evaluations;
            out.nontrivial.extend(a.nontrivial);
            for s in a.samples {
                if out.samples.len() < 10 && !out.samples.contains(&s) {
                    out.samples.push(s);
                }
            }
            for (k, v) in a.counters {
                *out.counters.entry(k).or_insert(0) += v;
            }
            for (k, v) in a.sets {
                out.sets.entry(k).or_default().extend(v);
            }
        }
        out
    }
    pub fn into_evidence(self, ev: &mut Evidence) {
        ev.add("evaluations", self.evaluations);
        ev.add("distinct_nontrivial", self.nontrivial.len() as u64);
        for s in self.samples {
            ev.sample(s);
        }
        for (k, v) in self.counters {
            ev.add(&k, v);
        }
        for (k, v) in self.sets {
            let mut items: Vec<String> = v.into_iter().collect();
            items.sort();
            ev.set(&format!("{}_count", k), json!(items.len()));
            items.truncate(400);
            ev.set(&k, json!(items));
        }
    }
}

/// Runs f(i, acc) for i in 0..n on all cores; each worker has its own accumulator and a large
/// stack (reference evaluator and library both recurse over document depth).
pub fn par_run<F: Fn(usize, &mut Acc) + Sync>(ctx: &Ctx, n: usize, f: F) -> Acc {
    let next = AtomicUsize::new(0);
    let chunk = (n / (ctx.threads * 16)).clamp(1, 4096);
    let done = AtomicUsize::new(0);
    let finished = std::sync::atomic::AtomicBool::new(false);
    // cases are visited in a strided order (i -> i * P mod n): neighbours in the case list - the
    // members of one family, often sharing a document - then run at the same time on different
    // threads instead of one after the other on one thread
    let stride = {
        let mut p = 1_000_003usize;
        while n > 1 && gcd(p, n) != 1 {
            p += 2;
        }
        p
    };
    let accs: Vec<Acc> = std::thread::scope(|s| {
        // Stall watchdog: the library is called in-process, so a deadlock inside it (e.g. a
        // lock-order inversion in a shared cache) would hang the check. "No case completed for
        // 90 s while the process used (almost) no CPU" is a blocked process, not a slow one:
        // machine load does not stop CPU time from advancing. That is reported as a violation;
        // no progress *with* CPU being burnt for 30 minutes is inconclusive.
        s.spawn(|| {
            let mut last_done = 0usize;
            let mut last_change = Instant::now();
            let mut cpu_at_change = self_cpu_seconds();
            while !finished.load(Ordering::SeqCst) {
                std::thread::sleep(std::time::Duration::from_millis(500));
                let d = done.load(Ordering::SeqCst);
                if d != last_done {
                    last_done = d;
                    last_change = Instant::now();
                    cpu_at_change = self_cpu_seconds();
                    continue;
                }
                let idle = last_change.elapsed().as_secs_f64();
                let cpu = self_cpu_seconds() - cpu_at_change;
                if idle > 90.0 && cpu < 1.0 && !finished.load(Ordering::SeqCst) {
                    ctx.abort_stalled(d, n, idle, cpu);
                }
                if idle > 1800.0 && !finished.load(Ordering::SeqCst) {
                    eprintln!("HARNESS-ERROR no case completed for {:.0} s although CPU is being used ({:.0} s): inconclusive", idle, cpu);
                    std::process::exit(2);
                }
            }
        });
        let hs: Vec<_> = (0..ctx.threads.max(1))
            .map(|_| {
                std::thread::Builder::new()
                    .stack_size(512 << 20)
                    .spawn_scoped(s, || {
                        let mut acc = Acc::default();
                        loop {
                            let st = next.fetch_add(chunk, Ordering::Relaxed);
                            if st >= n {
                                break;
                            }
                            for i in st..(st + chunk).min(n) {
                                let i = if n > 1 { ((i as u128 * stride as u128) % n as u128) as usize } else { i };
                                f(i, &mut acc);
                                done.fetch_add(1, Ordering::Relaxed);
                            }
                        }
                        acc
                    })
                    .expect("spawn")
            })
            .collect();
        let r = hs.into_iter().map(|h| h.join().expect("worker thread panicked (harness bug)")).collect();
        finished.store(true, Ordering::SeqCst);
        r
    });
    Acc::merge(accs)
}
