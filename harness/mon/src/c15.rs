//! C15: evaluation depends only on the Queryable view of the data. Two further Queryable
//! implementations, differently represented, are driven through the query space and compared
//! with serde_json::Value (differential between instantiations of the same engine, so open known
//! findings cancel out), plus the reference evaluator for a view with a different member order.

use crate::ctx::{par_run, Acc, Ctx, Evidence};
use crate::findings::arm;
use crate::libapi::{self, Doc, LibOutcome};
use jsonpath_rust::query::js_path;
use jsonpath_rust::query::queryable::Queryable;
use oracle::eval::{eval_locs, Dev};
use oracle::gen;
use oracle::json::{json_eq, J, N};
use oracle::npath;
use oracle::parse::analyze;
use oracle::render::{render, Spelling};
use oracle::rng::Rng;
use serde_json::json;
use std::fmt;
use std::panic::{catch_unwind, AssertUnwindSafe};

// ---------------------------------------------------------------------------------------------
// VecJson: objects as insertion-ordered vectors, integers and floats strictly separate
// (an integer answers only as_i64, a float only as_f64), Default is NOT null, own Debug format.

#[derive(Clone, PartialEq)]
pub enum VecJson {
    Nul,
    Boolean(bool),
    Int(i64),
    Float(f64),
    Text(String),
    List(Vec<VecJson>),
    Map(Vec<(String, VecJson)>),
    /// never constructed: makes a node of this type several times the size of a serde_json::Value
    /// (nothing the engine does may depend on how large the data type's nodes are)
    Pad([u64; 14]),
}
impl Default for VecJson {
    fn default() -> Self {
        VecJson::Map(vec![])
    }
}
impl fmt::Debug for VecJson {
    fn fmt(&self, f: &mut fmt::Formatter<'_>) -> fmt::Result {
        write!(f, "<vecjson>")
    }
}
impl From<&str> for VecJson {
    fn from(s: &str) -> Self {
        VecJson::Text(s.to_string())
    }
}
impl From<String> for VecJson {
    fn from(s: String) -> Self {
        VecJson::Text(s)
    }
}
impl From<bool> for VecJson {
    fn from(b: bool) -> Self {
        VecJson::Boolean(b)
    }
}
impl From<i64> for VecJson {
    fn from(i: i64) -> Self {
        VecJson::Int(i)
    }
}
impl From<f64> for VecJson {
    fn from(f: f64) -> Self {
        VecJson::Float(f)
    }
}
impl From<Vec<VecJson>> for VecJson {
    fn from(v: Vec<VecJson>) -> Self {
        VecJson::List(v)
    }
}
fn unquote(key: &str) -> &str {
    if key.len() >= 2 && key.starts_with('\'') && key.ends_with('\'') {
        key.trim_matches('\'')
    } else if key.len() >= 2 && key.starts_with('"') && key.ends_with('"') {
        key.trim_matches('"')
    } else {
        key
    }
}
impl Queryable for VecJson {
    fn get(&self, key: &str) -> Option<&Self> {
        let key = unquote(key);
        match self {
            VecJson::Map(m) => m.iter().find(|(k, _)| k == key).map(|(_, v)| v),
            _ => None,
        }
    }
    fn as_array(&self) -> Option<&Vec<Self>> {
        match self {
            VecJson::List(l) => Some(l),
            _ => None,
        }
    }
    fn as_object(&self) -> Option<Vec<(&String, &Self)>> {
        match self {
            VecJson::Map(m) => Some(m.iter().map(|(k, v)| (k, v)).collect()),
            _ => None,
        }
    }
    fn as_str(&self) -> Option<&str> {
        match self {
            VecJson::Text(s) => Some(s),
            _ => None,
        }
    }
    fn as_i64(&self) -> Option<i64> {
        match self {
            VecJson::Int(i) => Some(*i),
            _ => None,
        }
    }
    fn as_f64(&self) -> Option<f64> {
        match self {
            VecJson::Float(f) => Some(*f),
            _ => None,
        }
    }
    fn as_bool(&self) -> Option<bool> {
        match self {
            VecJson::Boolean(b) => Some(*b),
            _ => None,
        }
    }
    fn null() -> Self {
        VecJson::Nul
    }
}

// ---------------------------------------------------------------------------------------------
// F64Json: every number is an f64 (as_i64 answers for integral values), numeric PartialEq,
// objects sorted like serde_json's map, Default is an empty string.

#[derive(Clone)]
pub enum F64Json {
    N,
    B(bool),
    Num(f64),
    S(String),
    A(Vec<F64Json>),
    O(Vec<(String, F64Json)>),
}
impl PartialEq for F64Json {
    fn eq(&self, o: &Self) -> bool {
        match (self, o) {
            (F64Json::N, F64Json::N) => true,
            (F64Json::B(a), F64Json::B(b)) => a == b,
            (F64Json::Num(a), F64Json::Num(b)) => a == b,
            (F64Json::S(a), F64Json::S(b)) => a == b,
            (F64Json::A(a), F64Json::A(b)) => a == b,
            (F64Json::O(a), F64Json::O(b)) => a.len() == b.len() && a.iter().all(|(k, v)| b.iter().any(|(k2, v2)| k == k2 && v == v2)),
            _ => false,
        }
    }
}
impl Default for F64Json {
    fn default() -> Self {
        F64Json::S(String::new())
    }
}
impl fmt::Debug for F64Json {
    fn fmt(&self, f: &mut fmt::Formatter<'_>) -> fmt::Result {
        write!(f, "F64Json(..)")
    }
}
impl From<&str> for F64Json {
    fn from(s: &str) -> Self {
        F64Json::S(s.to_string())
    }
}
impl From<String> for F64Json {
    fn from(s: String) -> Self {
        F64Json::S(s)
    }
}
impl From<bool> for F64Json {
    fn from(b: bool) -> Self {
        F64Json::B(b)
    }
}
impl From<i64> for F64Json {
    fn from(i: i64) -> Self {
        F64Json::Num(i as f64)
    }
}
impl From<f64> for F64Json {
    fn from(f: f64) -> Self {
        F64Json::Num(f)
    }
}
impl From<Vec<F64Json>> for F64Json {
    fn from(v: Vec<F64Json>) -> Self {
        F64Json::A(v)
    }
}
impl Queryable for F64Json {
    fn get(&self, key: &str) -> Option<&Self> {
        let key = unquote(key);
        match self {
            F64Json::O(m) => m.iter().find(|(k, _)| k == key).map(|(_, v)| v),
            _ => None,
        }
    }
    fn as_array(&self) -> Option<&Vec<Self>> {
        match self {
            F64Json::A(l) => Some(l),
            _ => None,
        }
    }
    fn as_object(&self) -> Option<Vec<(&String, &Self)>> {
        match self {
            F64Json::O(m) => Some(m.iter().map(|(k, v)| (k, v)).collect()),
            _ => None,
        }
    }
    fn as_str(&self) -> Option<&str> {
        match self {
            F64Json::S(s) => Some(s),
            _ => None,
        }
    }
    fn as_i64(&self) -> Option<i64> {
        match self {
            F64Json::Num(f) if f.fract() == 0.0 && f.abs() < 9.0e15 => Some(*f as i64),
            _ => None,
        }
    }
    fn as_f64(&self) -> Option<f64> {
        match self {
            F64Json::Num(f) => Some(*f),
            _ => None,
        }
    }
    fn as_bool(&self) -> Option<bool> {
        match self {
            F64Json::B(b) => Some(*b),
            _ => None,
        }
    }
    fn null() -> Self {
        F64Json::N
    }
}

// ---------------------------------------------------------------------------------------------
// DagJson: equal subtrees are physically shared (one Arc'd container reachable under several
// paths, so a node's address does not identify its location), and PartialEq compares numbers
// with a relative tolerance of 1e-9 (a measurement type) - inside containers too. Both are
// things the trait does not rule out: the engine must compare through the accessors and must
// identify nodes by where it found them.

#[derive(Clone)]
pub enum DagJson {
    N,
    B(bool),
    I(i64),
    F(f64),
    S(String),
    A(std::sync::Arc<Vec<DagJson>>),
    O(std::sync::Arc<Vec<(String, DagJson)>>),
}
impl PartialEq for DagJson {
    fn eq(&self, o: &Self) -> bool {
        let num = |v: &DagJson| match v {
            DagJson::I(i) => Some(*i as f64),
            DagJson::F(f) => Some(*f),
            _ => None,
        };
        if let (Some(a), Some(b)) = (num(self), num(o)) {
            return a == b || (a - b).abs() <= 1e-9 * a.abs().max(b.abs());
        }
        match (self, o) {
            (DagJson::N, DagJson::N) => true,
            (DagJson::B(a), DagJson::B(b)) => a == b,
            (DagJson::S(a), DagJson::S(b)) => a == b,
            (DagJson::A(a), DagJson::A(b)) => a == b,
            (DagJson::O(a), DagJson::O(b)) => a.len() == b.len() && a.iter().all(|(k, v)| b.iter().any(|(k2, v2)| k == k2 && v == v2)),
            _ => false,
        }
    }
}
impl Default for DagJson {
    fn default() -> Self {
        DagJson::B(false)
    }
}
impl fmt::Debug for DagJson {
    fn fmt(&self, f: &mut fmt::Formatter<'_>) -> fmt::Result {
        write!(f, "DagJson")
    }
}
impl From<&str> for DagJson {
    fn from(s: &str) -> Self {
        DagJson::S(s.to_string())
    }
}
impl From<String> for DagJson {
    fn from(s: String) -> Self {
        DagJson::S(s)
    }
}
impl From<bool> for DagJson {
    fn from(b: bool) -> Self {
        DagJson::B(b)
    }
}
impl From<i64> for DagJson {
    fn from(i: i64) -> Self {
        DagJson::I(i)
    }
}
impl From<f64> for DagJson {
    fn from(f: f64) -> Self {
        DagJson::F(f)
    }
}
impl From<Vec<DagJson>> for DagJson {
    fn from(v: Vec<DagJson>) -> Self {
        DagJson::A(std::sync::Arc::new(v))
    }
}
impl Queryable for DagJson {
    fn get(&self, key: &str) -> Option<&Self> {
        let key = unquote(key);
        match self {
            DagJson::O(m) => m.iter().find(|(k, _)| k == key).map(|(_, v)| v),
            _ => None,
        }
    }
    fn as_array(&self) -> Option<&Vec<Self>> {
        match self {
            DagJson::A(l) => Some(&**l),
            _ => None,
        }
    }
    fn as_object(&self) -> Option<Vec<(&String, &Self)>> {
        match self {
            DagJson::O(m) => Some(m.iter().map(|(k, v)| (k, v)).collect()),
            _ => None,
        }
    }
    fn as_str(&self) -> Option<&str> {
        match self {
            DagJson::S(s) => Some(s),
            _ => None,
        }
    }
    fn as_i64(&self) -> Option<i64> {
        match self {
            DagJson::I(i) => Some(*i),
            _ => None,
        }
    }
    fn as_f64(&self) -> Option<f64> {
        match self {
            DagJson::F(f) => Some(*f),
            DagJson::I(i) => Some(*i as f64),
            _ => None,
        }
    }
    fn as_bool(&self) -> Option<bool> {
        match self {
            DagJson::B(b) => Some(*b),
            _ => None,
        }
    }
    fn null() -> Self {
        DagJson::N
    }
}
/// builds the DAG: containers with the same JSON text become one shared allocation
fn to_dag(j: &J, pool: &mut std::collections::HashMap<String, DagJson>, shared: &mut u64) -> DagJson {
    match j {
        J::Null => DagJson::N,
        J::Bool(b) => DagJson::B(*b),
        J::Num(N::Int(i)) => DagJson::I(*i),
        J::Num(N::Big(u)) => DagJson::F(*u as f64),
        J::Num(N::Float(f)) => DagJson::F(*f),
        J::Str(s) => DagJson::S(s.clone()),
        J::Arr(_) | J::Obj(_) => {
            let key = j.to_text();
            if let Some(d) = pool.get(&key) {
                *shared += 1;
                return d.clone();
            }
            let d = match j {
                J::Arr(a) => DagJson::A(std::sync::Arc::new(a.iter().map(|c| to_dag(c, pool, shared)).collect())),
                J::Obj(o) => DagJson::O(std::sync::Arc::new(o.iter().map(|(k, v)| (k.clone(), to_dag(v, pool, shared))).collect())),
                _ => unreachable!(),
            };
            pool.insert(key, d.clone());
            d
        }
    }
}
fn from_dag(v: &DagJson) -> J {
    match v {
        DagJson::N => J::Null,
        DagJson::B(b) => J::Bool(*b),
        DagJson::I(i) => J::int(*i),
        DagJson::F(f) => J::float(*f),
        DagJson::S(s) => J::Str(s.clone()),
        DagJson::A(l) => J::Arr(l.iter().map(from_dag).collect()),
        DagJson::O(m) => J::Obj(m.iter().map(|(k, v)| (k.clone(), from_dag(v))).collect()),
    }
}

fn to_vec(j: &J, reverse: bool) -> VecJson {
    match j {
        J::Null => VecJson::Nul,
        J::Bool(b) => VecJson::Boolean(*b),
        J::Num(N::Int(i)) => VecJson::Int(*i),
        J::Num(N::Big(u)) => VecJson::Float(*u as f64),
        J::Num(N::Float(f)) => VecJson::Float(*f),
        J::Str(s) => VecJson::Text(s.clone()),
        J::Arr(a) => VecJson::List(a.iter().map(|c| to_vec(c, reverse)).collect()),
        J::Obj(o) => {
            let mut m: Vec<(String, VecJson)> = o.iter().map(|(k, v)| (k.clone(), to_vec(v, reverse))).collect();
            if reverse {
                m.reverse();
            }
            VecJson::Map(m)
        }
    }
}
fn reorder(j: &J) -> J {
    match j {
        J::Arr(a) => J::Arr(a.iter().map(reorder).collect()),
        J::Obj(o) => {
            let mut m: Vec<(String, J)> = o.iter().map(|(k, v)| (k.clone(), reorder(v))).collect();
            m.reverse();
            J::Obj(m)
        }
        other => other.clone(),
    }
}
fn from_vec(v: &VecJson) -> J {
    match v {
        VecJson::Nul => J::Null,
        VecJson::Boolean(b) => J::Bool(*b),
        VecJson::Int(i) => J::int(*i),
        VecJson::Float(f) => J::float(*f),
        VecJson::Text(s) => J::Str(s.clone()),
        VecJson::List(l) => J::Arr(l.iter().map(from_vec).collect()),
        VecJson::Map(m) => J::Obj(m.iter().map(|(k, v)| (k.clone(), from_vec(v))).collect()),
        VecJson::Pad(_) => J::Null,
    }
}
fn to_f64j(j: &J) -> F64Json {
    match j {
        J::Null => F64Json::N,
        J::Bool(b) => F64Json::B(*b),
        J::Num(n) => F64Json::Num(n.as_f64()),
        J::Str(s) => F64Json::S(s.clone()),
        J::Arr(a) => F64Json::A(a.iter().map(to_f64j).collect()),
        J::Obj(o) => F64Json::O(o.iter().map(|(k, v)| (k.clone(), to_f64j(v))).collect()),
    }
}
fn from_f64j(v: &F64Json) -> J {
    match v {
        F64Json::N => J::Null,
        F64Json::B(b) => J::Bool(*b),
        F64Json::Num(f) => J::float(*f),
        F64Json::S(s) => J::Str(s.clone()),
        F64Json::A(l) => J::Arr(l.iter().map(from_f64j).collect()),
        F64Json::O(m) => J::Obj(m.iter().map(|(k, v)| (k.clone(), from_f64j(v))).collect()),
    }
}

/// (path, value) list or error/panic text, via the generic engine at type T
fn run_at<T: Queryable>(q: &str, d: &T, back: &dyn Fn(&T) -> J) -> Result<Vec<(String, J)>, String> {
    match catch_unwind(AssertUnwindSafe(|| js_path(q, d))) {
        Ok(Ok(rs)) => Ok(rs.into_iter().map(|r| (r.clone().path(), back(r.val()))).collect()),
        Ok(Err(e)) => Err(format!("Err: {}", e)),
        Err(p) => Err(format!("panic: {} at {}", libapi::panic_msg(p), libapi::last_panic_loc())),
    }
}

fn same(a: &Result<Vec<(String, J)>, String>, b: &Result<Vec<(String, J)>, String>) -> bool {
    match (a, b) {
        (Ok(x), Ok(y)) => x.len() == y.len() && x.iter().zip(y).all(|(p, q)| p.0 == q.0 && json_eq(&p.1, &q.1)),
        (Err(x), Err(y)) => x == y,
        _ => false,
    }
}

fn brief(r: &Result<Vec<(String, J)>, String>) -> String {
    match r {
        Ok(v) => format!("{} nodes {:?}", v.len(), v.iter().take(4).map(|x| x.0.clone()).collect::<Vec<_>>()),
        Err(e) => e.chars().take(160).collect(),
    }
}

pub fn run(ctx: &Ctx) -> Result<Evidence, String> {
    let armed = arm(ctx, &|_| None)?;
    let mut rng = Rng::stream(ctx.seed, 15);
    // documents: small exhaustive + curated + random + the C04 carriers + the C10 value document
    let mut docs: Vec<J> = gen::enum_docs_upto(3, &gen::small_leaves(), &["a", "b", "c"]);
    docs.extend(gen::curated_docs().into_iter().filter(|d| d.node_count() < 400));
    let cfg = gen::DocCfg::default();
    for _ in 0..ctx.tier.pick(300, 3000) {
        docs.push(gen::random_doc(&mut rng, &cfg));
    }
    docs.extend(gen::boundary_docs());
    // documents in which equal subtrees occur at several places (DagJson shares them)
    for k in 0..ctx.tier.pick(200, 2000) {
        let d = if k % 4 == 0 { gen::curated_docs()[k / 4 % gen::curated_docs().len()].clone() } else { gen::random_doc(&mut rng, &cfg) };
        if d.node_count() > 120 {
            continue;
        }
        docs.push(match k % 3 {
            0 => J::Obj(vec![("a".into(), d.clone()), ("b".into(), d.clone()), ("c".into(), J::Arr(vec![d.clone(), J::int(1), d]))]),
            1 => J::Arr(vec![d.clone(), J::Obj(vec![("a".into(), d.clone()), ("b".into(), J::Arr(vec![d.clone()]))]), d]),
            _ => J::Obj(vec![("fiction".into(), J::Arr(vec![d.clone(), d.clone()])), ("reference".into(), J::Arr(vec![d.clone(), d]))]),
        });
    }
    let n_general = docs.len();
    let u = crate::c04::universe();
    let mut pair_docs = vec![];
    for a in &u {
        for b in &u {
            let mut o = vec![];
            if let Some(a) = &a.1 {
                o.push(("l".to_string(), a.clone()));
            }
            if let Some(b) = &b.1 {
                o.push(("r".to_string(), b.clone()));
            }
            pair_docs.push(J::Arr(vec![J::Obj(o)]));
        }
    }
    let vdoc = crate::c10::values_doc();
    // queries
    let mut general_q: Vec<String> = vec![];
    for s in gen::selector_pool() {
        for d in [false, true] {
            let q = oracle::ast::Query::root(vec![oracle::ast::Segment { descendant: d, selectors: vec![s.clone()] }]);
            general_q.push(render(&q, &mut Spelling::canonical()));
        }
    }
    general_q.extend(gen::boundary_queries().iter().map(|s| s.to_string()));
    let qcfg = gen::QueryCfg::default();
    let n_rand_q = ctx.tier.pick(400, 6000);
    for _ in 0..n_rand_q {
        general_q.push(render(&gen::random_query(&mut rng, &qcfg), &mut Spelling::canonical()));
    }
    let cmp_q: Vec<String> = ["==", "!=", "<", "<=", ">", ">="]
        .iter()
        .flat_map(|op| vec![format!("$[?@.l {} @.r]", op), format!("$[?!(@.l {} @.r)]", op), format!("$[?@.l {} 1]", op), format!("$[?@.l {} 1.0]", op), format!("$[?1.5 {} @.r]", op), format!("$[?@.l {} null]", op), format!("$[?@.l {} 'a']", op), format!("$[?@.l {} true]", op)])
        .collect();
    let val_q = crate::c10::value_queries();
    let n_a = ctx.tier.pick(150_000, 30_000_000);
    let n_b = pair_docs.len() * cmp_q.len();
    let n_c = val_q.len();
    // the size-boundary documents x the boundary queries, completely (not sampled)
    let bdocs: Vec<J> = gen::boundary_docs();
    let bqs: Vec<String> = gen::boundary_queries().iter().map(|s| s.to_string()).collect();
    let n_d = bdocs.len() * bqs.len();
    // documents thousands of levels deep (built, not parsed) under descendant queries
    let very_deep: Vec<J> = [1500usize, 1800, 2400, 4000]
        .iter()
        .map(|&n| {
            let mut d = J::Obj(vec![("k".into(), J::int(0)), ("l".into(), J::Arr(vec![J::int(1), J::int(2)]))]);
            for i in 0..n {
                d = if i % 2 == 0 { J::Obj(vec![("k".into(), J::int(i as i64)), ("n".into(), d)]) } else { J::Arr(vec![d, J::int(i as i64)]) };
            }
            d
        })
        .collect();
    let vd_q = ["$..k", "$..[1]", "$..l[0]", "$..[?@.k > 3990]"];
    let n_e = very_deep.len() * vd_q.len();
    let seed = ctx.seed;

    let acc = par_run(ctx, n_a + n_b + n_c + n_d + n_e, |i, acc: &mut Acc| {
        let (q, d, fam): (&str, &J, &str);
        let mut r = Rng::stream(seed, 1500 + i as u64);
        if i >= n_a + n_b + n_c + n_d {
            let k = i - n_a - n_b - n_c - n_d;
            q = vd_q[k % vd_q.len()];
            d = &very_deep[k / vd_q.len()];
            fam = "very-deep-documents";
        } else if i >= n_a + n_b + n_c {
            let k = i - n_a - n_b - n_c;
            q = &bqs[k % bqs.len()];
            d = &bdocs[k / bqs.len()];
            fam = "size-boundaries";
        } else if i < n_a {
            q = &general_q[r.below(general_q.len() as u64) as usize];
            d = &docs[r.below(n_general as u64) as usize];
            fam = "general";
        } else if i < n_a + n_b {
            let k = i - n_a;
            q = &cmp_q[k % cmp_q.len()];
            d = &pair_docs[k / cmp_q.len()];
            fam = "comparison-table";
        } else {
            q = &val_q[i - n_a - n_b];
            d = &vdoc;
            fam = "functions";
        }
        // integers above i64::MAX cannot be expressed through the trait's accessors at all
        // (as_i64 / as_f64): no other implementation can be a faithful view of such a document
        fn has_u64(j: &J) -> bool {
            match j {
                J::Num(N::Big(_)) => true,
                J::Arr(a) => a.iter().any(has_u64),
                J::Obj(o) => o.iter().any(|(_, v)| has_u64(v)),
                _ => false,
            }
        }
        // several descendant segments over a large document multiply the work of four
        // implementations; those combinations are C01's business
        if (fam == "general" || fam == "size-boundaries") && q.matches("..").count() >= 2 && d.node_count() > 150 {
            acc.count("skipped_multi_descendant_on_large_document", 1);
            return;
        }
        if has_u64(d) {
            acc.count("documents_with_integers_beyond_i64_not_viewable_through_the_trait", 1);
            return;
        }
        acc.evaluations += 1;
        acc.count(&format!("family_{}", fam), 1);
        let doc = Doc::new(d);
        // baseline at serde_json::Value
        let base = run_at(q, &*doc.value, &|v: &serde_json::Value| J::from_value(v));
        // VecJson in the same member order as Value enumerates; in the comparison family the
        // right operand's objects list their members in the opposite order (a Queryable type
        // may keep insertion order, and RFC 9535 equality of objects ignores member order)
        let mut vj = to_vec(&doc.j, false);
        if fam == "comparison-table" {
            if let VecJson::List(items) = &mut vj {
                if let Some(VecJson::Map(m)) = items.get_mut(0) {
                    for (k, v) in m.iter_mut() {
                        if k == "r" {
                            if let Some(rj) = doc.j.at(&[oracle::json::Step::Idx(0), oracle::json::Step::Key("r".into())]) {
                                *v = to_vec(rj, true);
                            }
                        }
                    }
                }
            }
        }
        let got_v = run_at(q, &vj, &from_vec);
        let fj = to_f64j(&doc.j);
        let got_f = run_at(q, &fj, &from_f64j);
        let report = |which: &str, got: &Result<Vec<(String, J)>, String>| {
            ctx.violate(
                &format!("{} and serde_json::Value give different results for {:?}: Value -> {} ; {} -> {}", which, q, brief(&base), which, brief(got)),
                json!({"kind":"queryable","implementation": which, "query": q, "document": serde_json::from_str::<serde_json::Value>(&doc.text()).unwrap_or_default()}),
            )
        };
        let mut ok = true;
        if !same(&base, &got_v) {
            report("VecJson (ints/floats separate, ordered map, Default != null)", &got_v);
            ok = false;
        }
        // F64Json cannot represent integers beyond 2^53 exactly: compare through the same lossy
        // conversion of the baseline's values
        let base_f: Result<Vec<(String, J)>, String> = base.clone().map(|v| v.into_iter().map(|(p, j)| (p, from_f64j(&to_f64j(&j)))).collect());
        // a type that stores every number as f64 is not a faithful view of a document with
        // integers beyond 2^53: such documents are only judged at the other implementation
        fn has_big_int(j: &J) -> bool {
            match j {
                J::Num(N::Int(i)) => i.unsigned_abs() > 9007199254740991,
                J::Num(N::Big(_)) => true,
                J::Arr(a) => a.iter().any(has_big_int),
                J::Obj(o) => o.iter().any(|(_, v)| has_big_int(v)),
                _ => false,
            }
        }
        if has_big_int(&doc.j) {
            acc.count("f64json_not_a_faithful_view_of_this_document", 1);
        } else if !same(&base_f, &got_f) {
            report("F64Json (all numbers f64)", &got_f);
            ok = false;
        }
        // DagJson: shared subtrees, tolerant PartialEq
        {
            let mut shared = 0u64;
            let dj = to_dag(&doc.j, &mut std::collections::HashMap::new(), &mut shared);
            let got_d = run_at(q, &dj, &from_dag);
            acc.count("dagjson_shared_container_occurrences", shared);
            if !same(&base, &got_d) {
                report("DagJson (equal subtrees shared, PartialEq with a numeric tolerance)", &got_d);
                ok = false;
            }
        }
        // secondary: VecJson with reversed member order against the reference evaluator run on
        // that view (queries without unions: the open union-order finding would interfere)
        if ok && i % 3 == 0 && fam == "general" {
            let p = analyze(q);
            if let (Some(ast), true) = (&p.ast, p.info.unions == 0) {
                let rj = reorder(&doc.j);
                let rv = to_vec(&doc.j, true);
                if let (Ok((want, flags, _)), Ok(got)) = (eval_locs(ast, &rj, Dev::default()), run_at(q, &rv, &from_vec)) {
                    if !(flags.u2 || flags.u3 || flags.u5) {
                        let mut want_paths: Vec<String> = want.iter().map(|l| npath::render(l)).collect();
                        let mut got_paths: Vec<String> = got.iter().map(|x| x.0.clone()).collect();
                        if ast.segments.iter().any(|s| s.descendant) {
                            // the traversal order of descendants is only partially fixed (C02)
                            want_paths.sort();
                            got_paths.sort();
                        }
                        acc.count("reordered_view_checks", 1);
                        if want_paths != got_paths {
                            let t = crate::judge::triggers(&p);
                            let known = [(t.name_esc_other, "name_esc_other"), (t.lit_esc, "lit_esc")].iter().any(|(c, n)| *c && armed.has(n));
                            if !known {
                                ctx.violate(
                                    &format!("VecJson with another member order: {:?} returned {:?}, the reference evaluator over that view gives {:?}", q, got_paths.iter().take(6).collect::<Vec<_>>(), want_paths.iter().take(6).collect::<Vec<_>>()),
                                    json!({"kind":"queryable","implementation":"VecJson-reordered","query": q, "document": serde_json::from_str::<serde_json::Value>(&rj.to_text()).unwrap_or_default()}),
                                );
                                ok = false;
                            }
                        }
                    }
                }
            }
        }
        if ok {
            acc.count("held", 1);
        }
        if let Ok(v) = &base {
            if !v.is_empty() {
                acc.nontrivial(format!("{}\u{0}{}", q, doc.text()).as_bytes());
                if i % 1009 == 0 {
                    acc.sample(json!({"family": fam, "query": q, "paths": v.iter().take(3).map(|x| x.0.clone()).collect::<Vec<_>>()}));
                }
            }
        }
    });
    let mut ev = Evidence::new("cases = (query, document) evaluated by the same generic engine at four Queryable types: serde_json::Value, DagJson (equal subtrees physically shared, PartialEq with a numeric tolerance), VecJson (120-byte nodes; objects as ordered vectors, Int/Float strictly separate accessors, Default != null, opaque Debug) and F64Json (all numbers f64, numeric PartialEq, Default = \"\"); paths must be identical and values deep-equal (numbers by value). Families: the C01 selector pool and random queries x small/curated/random documents, the C04 comparison universe (all ordered pairs x operators x literal kinds), the C10 function sweep. A VecJson view with reversed member order is compared with the reference evaluator run over that view. Non-trivial = distinct (query, document) with a non-empty result.");
    ev.set("exhaustive", json!(false));
    ev.set("implementations", json!(["serde_json::Value", "VecJson", "F64Json", "DagJson", "VecJson (reversed member order)"]));
    ev.assume("two further faithful Queryable implementations stand for 'all implementations'; their get() honours the documented key contract (enclosing quotes stripped)");
    ev.min_nontrivial = 1000;
    acc.into_evidence(&mut ev);
    Ok(ev)
}
