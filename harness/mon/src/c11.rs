//! C11: index and slice arithmetic is exact for all bounds and lengths, and always terminates.
//! Exhaustive cube (length x start x end x step) in several contexts, each through the parser
//! and as a programmatically built query; extremes at the edge of the I-JSON range; run in
//! isolated workers under both the release and the overflow-checked profile, so that a wrong
//! result, an arithmetic overflow panic and a non-terminating loop are all observable.

use crate::convert;
use crate::ctx::{Acc, Ctx, Evidence, Tier};
use crate::findings::Armed;
use crate::judge::{judge_query, replay_json, Verdict, NODES, ORDER, PATHS};
use crate::libapi::{self, Doc, LibOutcome};
use crate::worker::{exe_for, run_isolated, CaseSet, Death, Isolation};
use oracle::ast::*;
use oracle::eval::{eval_locs, Dev};
use oracle::json::J;
use oracle::npath;
use oracle::parse::analyze;
use oracle::render::render_canonical;
use serde_json::{json, Value};

#[derive(Debug, Clone)]
pub struct Case {
    pub len: usize,
    pub sel: Selector,
    pub context: u8,
    pub family: &'static str,
}

pub struct Set {
    pub cases: Vec<Case>,
    pub armed: Armed,
    /// multi-selector segments of the "index-run-union" family, by case index
    pub unions: std::collections::HashMap<usize, Vec<Selector>>,
}

const M: i64 = 9007199254740991;

fn opt_range(lo: i64, hi: i64) -> Vec<Option<i64>> {
    let mut v = vec![None];
    v.extend((lo..=hi).map(Some));
    v
}

impl Set {
    pub fn new(tier: Tier, armed: Armed) -> Set {
        let mut cases = vec![];
        let mut unions: Vec<(usize, Vec<Selector>)> = vec![];
        let (max_len, b, s) = match tier {
            Tier::Quick => (6usize, 8i64, 4i64),
            Tier::Thorough => (16, 20, 9),
        };
        let bounds = opt_range(-b, b);
        let steps = opt_range(-s, s);
        for len in 0..=max_len {
            for st in &bounds {
                for en in &bounds {
                    for sp in &steps {
                        for context in [0u8, 1, 2, 3, 6, 7, 8, 9, 10] {
                            cases.push(Case { len, sel: Selector::Slice(*st, *en, *sp), context, family: "slice-cube" });
                        }
                    }
                }
            }
            for i in -(b + 4)..=(b + 4) {
                for context in 0..6u8 {
                    cases.push(Case { len, sel: Selector::Index(i), context, family: "index-sweep" });
                }
            }
        }
        // unions: runs of consecutive indices (ascending / descending, every start), index+slice
        for len in [0usize, 1, 3, 5, 8] {
            for start in -9i64..=9 {
                for run in 2..=6i64 {
                    for dir in [1i64, -1] {
                        let idxs: Vec<i64> = (0..run).map(|k| start + dir * k).collect();
                        cases.push(Case { len, sel: Selector::Index(i64::MAX), context: 0, family: "index-run-union" });
                        let last = cases.len() - 1;
                        cases[last].sel = Selector::Filter(Or(vec![])); // placeholder, replaced through `unions`
                        unions.push((last, idxs.iter().map(|i| Selector::Index(*i)).collect()));
                    }
                }
            }
            for (a, b) in [(Selector::Slice(Some(1), None, None), Selector::Index(0)), (Selector::Index(-1), Selector::Slice(None, None, Some(-1))), (Selector::Slice(None, Some(2), None), Selector::Slice(Some(-2), None, None))] {
                cases.push(Case { len, sel: Selector::Filter(Or(vec![])), context: 0, family: "index-run-union" });
                unions.push((cases.len() - 1, vec![a, b]));
            }
        }
        // extremes at the edge of the I-JSON range
        let ext: Vec<Option<i64>> = vec![None, Some(M), Some(-M), Some(M - 1), Some(-(M - 1)), Some(1 << 31), Some(-(1 << 31)), Some(1 << 32), Some(-(1 << 32)), Some((1 << 31) - 1), Some(0), Some(1), Some(-1), Some(2), Some(-2)];
        for len in 0..=3usize {
            for st in &ext {
                for en in &ext {
                    for sp in &ext {
                        let big = |x: &Option<i64>| x.map(|v| v.abs() > 1000).unwrap_or(false);
                        if !(big(st) || big(en) || big(sp)) {
                            continue;
                        }
                        for context in [0u8, 3] {
                            cases.push(Case { len, sel: Selector::Slice(*st, *en, *sp), context, family: "slice-extremes" });
                        }
                    }
                }
            }
            for i in ext.iter().flatten() {
                for context in [0u8, 4] {
                    cases.push(Case { len, sel: Selector::Index(*i), context, family: "index-extremes" });
                }
            }
        }
        // non-arrays: every selector on object, string, number, null
        for sel in [Selector::Slice(None, None, None), Selector::Slice(Some(0), Some(2), Some(1)), Selector::Slice(None, None, Some(-1)), Selector::Index(0), Selector::Index(-1), Selector::Slice(Some(1), None, Some(0))] {
            for len in 100..104usize {
                cases.push(Case { len, sel: sel.clone(), context: 0, family: "non-array" });
                cases.push(Case { len, sel: sel.clone(), context: 1, family: "non-array" });
            }
        }
        // slices over arrays of thousands of elements (chunked / strided fast paths): bounds at
        // the ends, in the interior and beyond, steps of both signs that do and do not divide
        // the range
        for (len, dense) in [(2047usize, false), (2048, true), (2049, true), (4097, false), (5000, true), (65_537, false)] {
            let l = len as i64;
            let mut bnds: Vec<Option<i64>> = vec![None, Some(0), Some(1), Some(10), Some(100), Some(l / 2), Some(l - 100), Some(l - 1), Some(l), Some(l + 1), Some(-1), Some(-4), Some(-100), Some(-(l / 2)), Some(-l + 1), Some(-l), Some(-l - 1)];
            let mut stps: Vec<Option<i64>> = vec![None, Some(1), Some(2), Some(3), Some(5), Some(7), Some(64), Some(-1), Some(-2), Some(-3), Some(-5), Some(-7), Some(-64), Some(-l)];
            if !dense {
                bnds = bnds.into_iter().step_by(2).collect();
                stps = stps.into_iter().step_by(2).collect();
            }
            for st in &bnds {
                for en in &bnds {
                    for sp in &stps {
                        cases.push(Case { len, sel: Selector::Slice(*st, *en, *sp), context: 0, family: "large-array-slices" });
                    }
                }
            }
            for i in [0i64, 1, 2047, 2048, 2049, l - 1, l, -1, -2048, -2049, -l, -l - 1] {
                cases.push(Case { len, sel: Selector::Index(i), context: 1, family: "large-array-slices" });
            }
        }
        // results beyond a million nodes
        for k in 0..SCALE.len() + RAGGED.len() {
            cases.push(Case { len: k, sel: Selector::Wildcard, context: 0, family: "scale" });
        }
        Set { cases, armed, unions: unions.into_iter().collect() }
    }

    fn build_idx(&self, idx: usize) -> (Query, J) {
        let c = &self.cases[idx];
        if let Some(sels) = self.unions.get(&idx) {
            let arr = J::Arr((0..c.len as i64).map(J::int).collect());
            return (Query::root(vec![Segment { descendant: false, selectors: sels.clone() }]), arr);
        }
        self.build(c)
    }

    fn build(&self, c: &Case) -> (Query, J) {
        let arr: J = match c.len {
            100 => J::Obj(vec![("0".into(), J::int(1)), ("1".into(), J::int(2))]),
            101 => J::str("abc"),
            102 => J::int(7),
            103 => J::Null,
            n => J::Arr((0..n as i64).map(J::int).collect()),
        };
        let sel = c.sel.clone();
        match c.context {
            0 => (Query::root(vec![Segment::child(sel)]), arr),
            1 => (Query::root(vec![Segment::child(Selector::Name("a".into())), Segment::child(sel)]), J::Obj(vec![("a".into(), arr)])),
            2 => (Query::root(vec![Segment::desc(sel)]), J::Obj(vec![("x".into(), J::Obj(vec![("a".into(), arr.clone())])), ("y".into(), J::Arr(vec![arr, J::int(1)]))])),
            3 => (
                Query::root(vec![Segment::child(Selector::Filter(Or::single(Basic::Test { not: false, test: TestExpr::Query(Query::current(vec![Segment::child(sel)])) })))]),
                J::Arr(vec![arr.clone(), J::Arr(vec![J::int(9)]), arr]),
            ),
            4 | 5 => {
                // singular-query index inside a comparison
                let i = match sel {
                    Selector::Index(i) => i,
                    _ => 0,
                };
                let k = if c.context == 4 { 0 } else { (c.len as i64 - 1).max(0) };
                (
                    Query::root(vec![Segment::child(Selector::Filter(Or::single(Basic::Cmp {
                        lhs: Comparable::Singular { root: Root::Current, steps: vec![SingStep::Index(i)] },
                        op: CmpOp::Eq,
                        rhs: Comparable::Lit(Literal::int(k)),
                    })))]),
                    J::Arr(vec![arr.clone(), J::Arr(vec![J::int(k), J::int(5)]), arr]),
                )
            }
            9 => (
                Query::root(vec![Segment::child(Selector::Name("caf\u{e9}".into())), Segment::child(Selector::Name("\u{65e5}\u{672c}".into())), Segment::child(sel)]),
                J::Obj(vec![("caf\u{e9}".into(), J::Obj(vec![("\u{65e5}\u{672c}".into(), arr)]))]),
            ),
            10 => (
                Query::root(vec![Segment::child(Selector::Wildcard), Segment::child(Selector::Wildcard), Segment::child(sel)]),
                J::Arr(vec![J::Obj(vec![("\u{1f600}".into(), arr.clone()), ("it's".into(), arr)])]),
            ),
            6 | 7 | 8 => {
                // the slice inside an existence test, followed by a further segment that only
                // some elements of the window satisfy (never the first one only)
                let n = c.len as i64;
                let elems: Vec<J> = (0..n)
                    .map(|i| match c.context {
                        6 => J::Obj(vec![(if i % 2 == 1 { "a" } else { "b" }.to_string(), J::int(i))]),
                        7 => J::Arr(if i % 2 == 1 { vec![J::int(i), J::int(i)] } else { vec![J::int(i)] }),
                        _ => J::Arr(vec![J::int(i)]),
                    })
                    .collect();
                let tail = match c.context {
                    6 => Segment::child(Selector::Name("a".into())),
                    7 => Segment::child(Selector::Index(1)),
                    _ => Segment::child(Selector::Filter(Or::single(Basic::Cmp { lhs: Comparable::Singular { root: Root::Current, steps: vec![] }, op: CmpOp::Gt, rhs: Comparable::Lit(Literal::int(1)) }))),
                };
                let row = J::Arr(elems);
                let mut rev = match &row { J::Arr(v) => v.clone(), _ => vec![] };
                rev.reverse();
                (
                    Query::root(vec![Segment::child(Selector::Filter(Or::single(Basic::Test { not: false, test: TestExpr::Query(Query::current(vec![Segment::child(sel), tail])) })))]),
                    J::Arr(vec![row.clone(), J::Arr(vec![J::Obj(vec![("b".into(), J::int(9))]), J::Arr(vec![J::int(0)])]), J::Arr(rev), row]),
                )
            }
            _ => unreachable!(),
        }
    }
}

/// large results: (rows, width, the segment applied after `$[*]`, how it is written)
const SCALE: [(usize, usize, &str); 12] = [
    (1_100_000, 2, "[0]"),
    (1_100_000, 2, "[-1]"),
    (1_100_000, 2, "[1:]"),
    (1_100_000, 2, "[1]"),
    (1_100_000, 1, "[::-1]"),
    (3, 400_000, "[:]"),
    (3, 400_000, "[::-1]"),
    (3, 400_000, "[5:-5]"),
    (3, 400_000, "[::2]"),
    (5, 300_000, "[2::3]"),
    (70_000, 16, "[-16:]"),
    (2, 1_048_577, "[:]"),
];

/// long node lists of rows that are almost all of one length (the first, middle and last ones
/// in particular) with a few rows of other lengths in between: (rows, usual width, segment)
const RAGGED: [(usize, usize, &str); 10] = [(301, 3, "[-2:]"), (301, 3, "[::-1]"), (301, 3, "[1:]"), (301, 3, "[:-1]"), (1000, 4, "[5:]"), (257, 2, "[-1]"), (256, 3, "[-3::2]"), (4097, 3, "[-2:]"), (300, 1, "[:]"), (600, 8, "[-9:-1:3]")];

fn run_ragged(k: usize, acc: &mut Acc) -> Vec<(String, Value)> {
    let (rows, width, seg) = RAGGED[k];
    let text = format!("$[*]{}", seg);
    let describe = || json!({"kind":"scale","query": text, "rows": rows, "usual_width": width, "ragged": true});
    let sel = match analyze(&text).ast {
        Some(q) => q.segments[1].selectors[0].clone(),
        None => return vec![(format!("ragged query does not parse: {}", text), describe())],
    };
    // rows of other lengths at a few interior positions (never first, middle or last)
    let odd: Vec<(usize, usize)> = vec![(1, width + 2), (rows / 3, 0), (rows / 2 + 1, 1), (rows - 2, width + 7), (rows / 5, width * 3)];
    let len_of = |r: usize| odd.iter().find(|(p, _)| *p == r).map(|(_, l)| *l).unwrap_or(width);
    let doc = Value::Array((0..rows).map(|r| Value::Array((0..len_of(r)).map(|c| json!(r * 100 + c)).collect())).collect());
    let mut want: Vec<(usize, usize)> = vec![];
    for r in 0..rows {
        let l = len_of(r);
        match &sel {
            Selector::Index(i) => {
                let j = if *i >= 0 { *i } else { l as i64 + *i };
                if j >= 0 && (j as usize) < l {
                    want.push((r, j as usize));
                }
            }
            Selector::Slice(a, b, c) => want.extend(oracle::eval::slice_indices(l, *a, *b, *c).into_iter().map(|c| (r, c))),
            _ => {}
        }
    }
    let mut out = vec![];
    match libapi::query_with_path(&text, &doc) {
        LibOutcome::Ok(ns) => {
            let got: Vec<String> = ns.iter().map(|n| n.1.clone()).collect();
            let wantp: Vec<String> = want.iter().map(|(r, c)| format!("$[{}][{}]", r, c)).collect();
            let addr_ok = ns.len() == want.len() && ns.iter().zip(want.iter()).all(|(n, (r, c))| n.0 == libapi::addr(&doc[*r][*c]));
            if got != wantp || !addr_ok {
                let first_bad = got.iter().zip(wantp.iter()).position(|(a, b)| a != b).unwrap_or(got.len().min(wantp.len()));
                out.push((format!("{} over {} rows (usual length {}, a few rows of other lengths): {} nodes, RFC 9535 gives {}; first difference at result {}: {:?} instead of {:?}", text, rows, width, got.len(), wantp.len(), first_bad, got.get(first_bad), wantp.get(first_bad)), describe()));
            } else {
                acc.count("held_ragged", 1);
                acc.nontrivial(format!("ragged:{}", text).as_bytes());
            }
        }
        o => out.push((format!("{} over {} ragged rows: {}", text, rows, o.brief()), describe())),
    }
    out
}

fn run_scale(k: usize, acc: &mut Acc) -> Vec<(String, Value)> {
    if k >= SCALE.len() {
        return run_ragged(k - SCALE.len(), acc);
    }
    let (rows, width, seg) = SCALE[k];
    let text = format!("$[*]{}", seg);
    let describe = || json!({"kind":"scale","query": text, "rows": rows, "width": width});
    let mut out = vec![];
    let sels = match analyze(&text).ast {
        Some(q) => q.segments[1].selectors.clone(),
        None => return vec![(format!("scale query does not parse: {}", text), describe())],
    };
    let doc = Value::Array((0..rows).map(|r| Value::Array((0..width).map(|c| json!(r * width + c)).collect())).collect());
    // expected (row, column) pairs in RFC order
    let mut per_row: Vec<usize> = vec![];
    for s in &sels {
        match s {
            Selector::Index(i) => {
                let j = if *i >= 0 { *i } else { width as i64 + *i };
                if j >= 0 && (j as usize) < width {
                    per_row.push(j as usize);
                }
            }
            Selector::Slice(a, b, c) => per_row.extend(oracle::eval::slice_indices(width, *a, *b, *c)),
            _ => {}
        }
    }
    let expected = rows * per_row.len();
    acc.count("scale_expected_nodes", expected as u64);
    match libapi::query_with_path(&text, &doc) {
        LibOutcome::Ok(ns) => {
            if ns.len() != expected {
                out.push((format!("{} over {} rows of {} elements selects {} nodes, RFC 9535 gives {}", text, rows, width, ns.len(), expected), describe()));
            } else {
                let mut bad = None;
                let mut k = 0usize;
                'rows: for r in 0..rows {
                    for c in &per_row {
                        let (a, p) = &ns[k];
                        if *a != libapi::addr(&doc[r][*c]) || *p != format!("$[{}][{}]", r, c) {
                            bad = Some((k, p.clone(), format!("$[{}][{}]", r, c)));
                            break 'rows;
                        }
                        k += 1;
                    }
                }
                match bad {
                    Some((k, got, want)) => out.push((format!("{} over {} rows of {} elements: result {} is {} instead of {}", text, rows, width, k, got, want), describe())),
                    None => {
                        acc.count("held_scale", 1);
                        acc.nontrivial(text.as_bytes());
                    }
                }
            }
        }
        o => out.push((format!("{} over {} rows of {} elements: {}", text, rows, width, o.brief()), describe())),
    }
    out
}

impl CaseSet for Set {
    fn len(&self) -> usize {
        self.cases.len()
    }
    fn cpu_budget_s(&self, idx: usize) -> f64 {
        if self.cases[idx].family == "scale" { 120.0 } else { 5.0 }
    }
    fn describe(&self, idx: usize) -> Value {
        let c = &self.cases[idx];
        if c.family == "scale" && c.len >= SCALE.len() {
            let (rows, width, seg) = RAGGED[c.len - SCALE.len()];
            return json!({"kind": "scale", "query": format!("$[*]{}", seg), "rows": rows, "usual_width": width, "family": "scale-ragged"});
        }
        if c.family == "scale" {
            let (rows, width, seg) = SCALE[c.len];
            return json!({"kind": "scale", "query": format!("$[*]{}", seg), "rows": rows, "width": width, "family": "scale"});
        }
        let (q, d) = self.build_idx(idx);
        json!({"kind": "query", "query": render_canonical(&q), "document": serde_json::from_str::<Value>(&d.to_text()).unwrap_or(Value::Null), "family": c.family, "array_length": c.len})
    }
    fn run(&self, idx: usize, acc: &mut Acc) -> Vec<(String, Value)> {
        let c = &self.cases[idx];
        if c.family == "scale" {
            acc.evaluations += 1;
            acc.count("family_scale", 1);
            return run_scale(c.len, acc);
        }
        let (ast, dj) = self.build_idx(idx);
        let doc = Doc::new(&dj);
        let text = render_canonical(&ast);
        let mut out = vec![];
        acc.evaluations += 1;
        acc.count(&format!("family_{}", c.family), 1);
        acc.count(&format!("context_{}", ["root", "under-name", "under-descendant", "in-filter-query", "singular-index-eq-first", "singular-index-eq-last", "in-filter-query-then-name", "in-filter-query-then-index", "in-filter-query-then-filter", "under-non-ascii-names", "under-wildcards-over-astral-and-quoted-names"][c.context as usize]), 1);
        // route 1: through the parser
        let parsed = analyze(&text);
        let j = judge_query(&text, &parsed, &doc, NODES | ORDER | PATHS, &self.armed);
        match &j.verdict {
            Verdict::Held => acc.count("held_parsed_route", 1),
            Verdict::Violated(m) => out.push((format!("[parsed query] {}", m), replay_json("query", &text, &doc, &j))),
            Verdict::Known(_) | Verdict::Skipped(_) | Verdict::Inconclusive(_) => acc.count("not_judged_parsed_route", 1),
        }
        // route 2: programmatically built query (no parser involved)
        let jq = convert::query(&ast);
        let lib = libapi::process(&jq, &doc.value);
        match (&lib, eval_locs(&ast, &doc.j, Dev::default())) {
            (LibOutcome::Ok(ns), Ok((want, _, _))) => {
                let got = doc.locs(ns);
                let paths_ok = got.as_ref().map(|ls| ls.iter().zip(ns.iter()).all(|(l, n)| npath::render(l) == n.1)).unwrap_or(false);
                if got.as_ref() != Some(&want) || !paths_ok {
                    out.push((
                        format!(
                            "[programmatic query {:?}] selected {:?} but RFC 9535 2.3.4.2.2 gives {:?}",
                            c.sel,
                            ns.iter().map(|n| n.1.clone()).collect::<Vec<_>>(),
                            want.iter().map(|l| npath::render(l)).collect::<Vec<_>>()
                        ),
                        self.describe(idx),
                    ));
                } else {
                    acc.count("held_programmatic_route", 1);
                }
            }
            (o, _) => out.push((format!("[programmatic query {:?}] {}", c.sel, o.brief()), self.describe(idx))),
        }
        // non-trivial: non-empty expected selection or a clamped bound
        let clamped = match &c.sel {
            Selector::Slice(s, e, _) => [s, e].iter().any(|x| x.map(|v| v < -(c.len as i64) || v > c.len as i64).unwrap_or(false)),
            Selector::Index(i) => *i < -(c.len as i64) || *i >= c.len as i64,
            _ => false,
        };
        if !j.ref_locs.is_empty() || clamped {
            acc.nontrivial(format!("{}:{:?}:{}", c.len, c.sel, c.context).as_bytes());
            if idx % 5003 == 0 {
                acc.sample(json!({"query": text, "array_length": c.len, "expected": j.ref_locs.iter().map(|l| npath::render(l)).collect::<Vec<_>>()}));
            }
        }
        out
    }
}

pub fn run(ctx: &Ctx) -> Result<Evidence, String> {
    let armed = crate::findings::arm(ctx, &|_| None)?;
    let set = Set::new(ctx.tier, armed);
    let mut total = Acc::default();
    let mut profiles = vec![];
    for profile in ["release", "checked"] {
        let exe = exe_for(profile);
        if !exe.exists() {
            return Err(format!("{} not built (run ./vf setup)", exe.display()));
        }
        let iso = Isolation { exe, args: vec!["worker".into(), "C11".into(), "all".into(), ctx.tier.name().into()], stack_bytes: None, mem_bytes: Some(8 << 30), env: vec![], chunk: None, max_deaths: 4 };
        let acc = run_isolated(ctx, &set, &iso, ctx.threads, &|idx, death| {
            let d = set.describe(idx);
            match death {
                Death::CpuTimeout(s) => ctx.violate(&format!("[{} build] evaluation did not terminate: {:.0} CPU-seconds used for {} (the reference needs microseconds)", profile, s, d["query"]), d),
                Death::Signal(sig, tail) => ctx.violate(&format!("[{} build] worker killed by signal {} while evaluating {}: {}", profile, sig, d["query"], tail.chars().rev().take(300).collect::<String>().chars().rev().collect::<String>()), d),
                Death::Exit(code, tail) => ctx.violate(&format!("[{} build] worker exited with {} while evaluating {}: {}", profile, code, d["query"], tail.chars().rev().take(300).collect::<String>().chars().rev().collect::<String>()), d),
                Death::Stalled(s) => ctx.violate(&format!("[{} build] evaluation of {} blocked: no CPU time used for {:.0} s and no return (deadlock)", profile, d["query"], s), d),
                Death::WallTimeout => ctx.add_inconclusive("wall-clock watchdog", 1),
            }
        });
        profiles.push(json!({"profile": profile, "cases": acc.evaluations}));
        total = Acc::merge(vec![total, acc]);
    }
    let (max_len, b, s) = match ctx.tier {
        Tier::Quick => (6, 8, 4),
        Tier::Thorough => (16, 20, 9),
    };
    let mut ev = Evidence::new("cases = (array length, selector, context): the complete cube lengths 0..=L x start,end in {absent} u [-B,B] x step in {absent} u [-S,S] in 7 contexts (root, under a name, under .., as existence test inside a filter, and inside an existence test followed by a name / an index / a filter that only some elements of the window satisfy) and all indices [-(B+4),B+4] in 6 contexts (incl. singular-query index in a comparison); extremes +-(2^53-1), +-(2^53-2), +-2^31, +-2^32 combined in every position x lengths 0..3; every selector on non-arrays. Every case runs through the parser AND as a programmatically built query, in isolated workers under the release and the overflow-checked build. Oracle: RFC 9535 2.3.4.2.2 pseudo-code transcribed with i128 arithmetic; termination judged on worker CPU time. Large-array slices (lengths 2047..65537, bounds at both ends / interior / beyond, steps +-1..+-64). Scale family: ragged tables of 256..4097 rows; results beyond 2^20 nodes (1.1 million rows, 3 x 400000 and 2 x 1048577 elements; count, node identity and path of every result). Non-trivial = distinct cells with a non-empty expected selection or an out-of-range bound.");
    ev.set("exhaustive", json!(true));
    ev.set("cube", json!({"max_length": max_len, "bound_range": b, "step_range": s}));
    ev.set("profiles", json!(profiles));
    ev.assume("termination = the worker finishes the case within 5 CPU-seconds (reference: microseconds)");
    ev.min_nontrivial = 1000;
    total.into_evidence(&mut ev);
    Ok(ev)
}
