//! The generic differential judgement of one (query text, document) execution at the public API
//! boundary: nodes (multiset, borrows), order (sequence), paths (Normalized Path of the node found
//! by address). Disagreements are classified against *armed* known-finding signatures.

use crate::findings::Armed;
use crate::libapi::{self, Doc, LibOutcome};
use oracle::ast::*;
use oracle::eval::{eval_locs, Dev, Flags};
use oracle::json::{Loc, Step};
use oracle::npath;
use oracle::parse::{Class, Parsed};
use serde_json::{json, Value};

pub const NODES: u8 = 1;
pub const ORDER: u8 = 2;
pub const PATHS: u8 = 4;

#[derive(Debug, Clone, PartialEq)]
pub enum Verdict {
    Held,
    Known(String),
    Skipped(&'static str),
    Violated(String),
    Inconclusive(String),
}

#[derive(Debug, Default, Clone)]
pub struct Triggers {
    /// some segment has >= 2 selectors
    pub union: bool,
    pub name_esc_other: bool,
    pub name_esc_simple: bool,
    pub name_dq: bool,
    pub lit_esc: bool,
    /// a filter selector sits in the first segment of an @-rooted query
    pub filter_on_current: bool,
    pub uni_ws_shorthand: bool,
    pub lc_hex: bool,
    /// a string literal begins or ends with a quote character (pattern mangling)
    pub lit_quote_edge: bool,
}

pub fn triggers(p: &Parsed) -> Triggers {
    let mut t = Triggers {
        union: p.info.unions > 0,
        name_esc_other: p.info.name_esc_other > 0,
        name_esc_simple: p.info.name_esc_simple > 0,
        name_dq: p.info.name_dq > 0,
        lit_esc: p.info.lit_esc > 0,
        uni_ws_shorthand: p.info.uni_ws_shorthand,
        lc_hex: p.info.lc_hex,
        ..Default::default()
    };
    struct V<'a>(&'a mut Triggers);
    impl<'a> Visitor for V<'a> {
        fn query(&mut self, q: &Query, _in_filter: bool) {
            if q.root == Root::Current {
                if let Some(s) = q.segments.first() {
                    if s.selectors.iter().any(|x| matches!(x, Selector::Filter(_))) {
                        self.0.filter_on_current = true;
                    }
                }
            }
        }
        fn literal(&mut self, l: &Literal) {
            if let Literal::Str(s) = l {
                if s.starts_with(['\'', '"']) || s.ends_with(['\'', '"']) {
                    self.0.lit_quote_edge = true;
                }
            }
        }
    }
    if let Some(q) = &p.ast {
        walk_query(q, &mut V(&mut t), false);
    }
    t
}

pub struct Judgement {
    pub verdict: Verdict,
    pub ref_locs: Vec<Loc>,
    pub lib: LibOutcome,
    pub lib_locs: Option<Vec<Loc>>,
    pub flags: Flags,
    pub ref_steps: u64,
}

fn sorted(v: &[Loc]) -> Vec<Loc> {
    let mut s = v.to_vec();
    s.sort();
    s
}

/// does a location pass through a member name that the Normalized Path must escape?
pub fn loc_needs_escape(l: &Loc) -> bool {
    l.iter().any(|s| match s {
        Step::Key(k) => k.chars().any(|c| c == '\'' || c == '\\' || (c as u32) < 0x20),
        _ => false,
    })
}

/// a member name that starts and ends with a single quote (the library takes it for quoted)
pub fn loc_quote_wrapped(l: &Loc) -> bool {
    l.iter().any(|s| match s {
        Step::Key(k) => k.len() >= 1 && k.starts_with('\'') && k.ends_with('\''),
        _ => false,
    })
}

pub fn judge_query(text: &str, p: &Parsed, doc: &Doc, aspects: u8, armed: &Armed) -> Judgement {
    let ast = match &p.ast {
        Some(a) => a,
        None => {
            return Judgement { verdict: Verdict::Inconclusive("no ast".into()), ref_locs: vec![], lib: LibOutcome::Err("".into()), lib_locs: None, flags: Flags::default(), ref_steps: 0 }
        }
    };
    let (ref_locs, flags, steps) = match eval_locs(ast, &doc.j, Dev::default()) {
        Ok(r) => r,
        Err(_) => {
            return Judgement { verdict: Verdict::Inconclusive("reference budget".into()), ref_locs: vec![], lib: LibOutcome::Err("".into()), lib_locs: None, flags: Flags::default(), ref_steps: 0 }
        }
    };
    let lib = libapi::query_with_path(text, &doc.value);
    let mut j = Judgement { verdict: Verdict::Held, ref_locs, lib, lib_locs: None, flags, ref_steps: steps };
    if j.flags.u3 {
        j.verdict = Verdict::Skipped("U3");
        return j;
    }
    if j.flags.u2 {
        j.verdict = Verdict::Skipped("U2");
        return j;
    }
    if j.flags.u5 {
        j.verdict = Verdict::Skipped("U5");
        return j;
    }
    match &p.class {
        Class::Valid | Class::OutOfScope(_) => {}
        Class::Unsettled(z) => {
            j.verdict = Verdict::Skipped(z);
            return j;
        }
        Class::Invalid(_) => {
            j.verdict = Verdict::Inconclusive("invalid query handed to judge".into());
            return j;
        }
    }
    let t = triggers(p);
    let nodes = match &j.lib {
        LibOutcome::Ok(n) => n.clone(),
        LibOutcome::Err(e) => {
            // a Valid query was rejected
            if t.lc_hex && armed.has("lc_hex") {
                j.verdict = Verdict::Known(armed.id_of("lc_hex"));
            } else if t.uni_ws_shorthand && armed.has("uni_ws_shorthand") {
                j.verdict = Verdict::Known(armed.id_of("uni_ws_shorthand"));
            } else {
                j.verdict = Verdict::Violated(format!("valid query rejected: {}", e.chars().take(200).collect::<String>()));
            }
            return j;
        }
        LibOutcome::Panic(m) => {
            j.verdict = Verdict::Violated(format!("panic: {}", m));
            return j;
        }
    };
    let lib_locs = match doc.locs(&nodes) {
        Some(l) => l,
        None => {
            j.verdict = Verdict::Violated("a returned reference is not a node of the caller's document (not a borrow)".into());
            return j;
        }
    };
    j.lib_locs = Some(lib_locs.clone());
    // nodes: multiset
    let same_multiset = sorted(&lib_locs) == sorted(&j.ref_locs);
    if aspects & NODES == 0 && aspects & ORDER != 0 && !same_multiset {
        // C02 judges order and multiplicity; a different *set* of nodes is C01's business
        let mut a = sorted(&lib_locs);
        a.dedup();
        let mut b = sorted(&j.ref_locs);
        b.dedup();
        if a != b {
            j.verdict = Verdict::Skipped("node-set-differs(C01)");
            return j;
        }
        j.verdict = Verdict::Violated(format!(
            "multiplicity of selected nodes differs (duplicates must be preserved): expected {:?} observed {:?}",
            j.ref_locs.iter().map(|l| npath::render(l)).collect::<Vec<_>>(),
            lib_locs.iter().map(|l| npath::render(l)).collect::<Vec<_>>()
        ));
        return j;
    }
    if aspects & (NODES | ORDER) != 0 && !same_multiset {
        for (cond, name) in [
            (t.name_esc_other, "name_esc_other"),
            (t.lit_esc, "lit_esc"),
            (t.filter_on_current, "filter_on_current"),
            (t.uni_ws_shorthand, "uni_ws_shorthand"),
            (t.lit_quote_edge, "lit_quote_edge"),
        ] {
            if cond && armed.has(name) {
                j.verdict = Verdict::Known(armed.id_of(name));
                return j;
            }
        }
        if aspects & NODES != 0 || aspects & ORDER != 0 {
            j.verdict = Verdict::Violated(format!(
                "selected nodes differ from the RFC nodelist (multiset): expected {:?} observed {:?}",
                j.ref_locs.iter().map(|l| npath::render(l)).collect::<Vec<_>>(),
                lib_locs.iter().map(|l| npath::render(l)).collect::<Vec<_>>()
            ));
            return j;
        }
    }
    if aspects & ORDER != 0 && same_multiset && lib_locs != j.ref_locs {
        // exact effect model of the union-order finding
        if t.union && armed.has("union") {
            if let Ok((alt, _, _)) = eval_locs(ast, &doc.j, Dev { selector_major: true }) {
                if alt == lib_locs {
                    j.verdict = Verdict::Known(armed.id_of("union"));
                    return j;
                }
            }
        }
        // RFC 9535 fixes the order of a descendant segment only partially: before calling it a
        // violation, let the permissive trace checker judge the observed per-segment node lists
        if ast.segments.iter().any(|s| s.descendant) {
            let (out, events) = crate::trace::with_events(|| libapi::query_with_path(text, &doc.value));
            if let LibOutcome::Ok(ns) = &out {
                let addrs: Vec<usize> = ns.iter().map(|n| n.0).collect();
                if addrs == nodes.iter().map(|n| n.0).collect::<Vec<_>>() {
                    let mut st = crate::trace::TraceStats::default();
                    if crate::trace::check_segments(ast, doc, &events, &addrs, true, armed.has("union"), &mut st).is_ok() && st.known_union_segments == 0 {
                        return j;
                    }
                }
            }
        }
        j.verdict = Verdict::Violated(format!(
            "result order differs from RFC document order: expected {:?} observed {:?}",
            j.ref_locs.iter().map(|l| npath::render(l)).collect::<Vec<_>>(),
            lib_locs.iter().map(|l| npath::render(l)).collect::<Vec<_>>()
        ));
        return j;
    }
    if aspects & PATHS != 0 {
        for ((_, path), loc) in nodes.iter().zip(lib_locs.iter()) {
            let want = npath::render(loc);
            if *path != want {
                for (cond, name) in [
                    (t.name_dq, "name_dq"),
                    (t.name_esc_other, "name_esc_other"),
                    (t.name_esc_simple, "name_esc_simple"),
                ] {
                    // a wrong rendering of a document's member name is never explained by the
                    // open round-trip finding (trigger doc_key_needs_escape): that finding is about
                    // running a correct path back as a query (judged in c03.rs), and the rendering
                    // finding KF-C03-enumerated-names-unescaped is fixed - it suppresses nothing
                    if cond && armed.has(name) {
                        j.verdict = Verdict::Known(armed.id_of(name));
                        return j;
                    }
                }
                j.verdict = Verdict::Violated(format!("reported path {:?} is not the Normalized Path {:?} of the returned node", path, want));
                return j;
            }
        }
    }
    j
}

pub fn replay_json(kind: &str, text: &str, doc: &Doc, j: &Judgement) -> Value {
    json!({
        "kind": kind,
        "query": text,
        "document": serde_json::from_str::<Value>(&doc.text()).unwrap_or(Value::Null),
        "expected": j.ref_locs.iter().map(|l| npath::render(l)).collect::<Vec<_>>(),
        "observed": match &j.lib {
            LibOutcome::Ok(ns) => json!({"paths": ns.iter().map(|(_, p)| p.clone()).collect::<Vec<_>>(),
                                         "nodes": j.lib_locs.as_ref().map(|ls| ls.iter().map(|l| npath::render(l)).collect::<Vec<_>>())}),
            o => json!(o.brief()),
        },
    })
}
