//! C13: spellings that RFC 9535 defines as equivalent select the same nodes in the same order.
//! Oracle-free: the library's own results for two renderings of one AST are compared by node
//! address (paths are C03's business). The renderer produces the spellings by construction.

use crate::ctx::{par_run, Acc, Ctx, Evidence};
use crate::findings::{arm, Armed};
use crate::judge::triggers;
use crate::libapi::{self, Doc, LibOutcome};
use oracle::ast::*;
use oracle::gen;
use oracle::json::J;
use oracle::parse::analyze;
use oracle::render::{count_slots, render, Blanks, EscStyle, NameStyle, Spelling};
use oracle::rng::Rng;
use serde_json::json;

fn curated() -> Vec<&'static str> {
    vec![
        "$.a", "$.a.b", "$..a", "$..b", "$.a..b", "$..a.b", "$.*", "$..*", "$.a.*", "$.*.b", "$[0].a", "$.a[0]", "$.a[1:3]", "$.a[::2]", "$['a','b']", "$[0,1]", "$..['a','b']", "$.a[?@.b]", "$.a[?@.b == 1]", "$[?@.a && @.b]", "$[?@.a || @.b && @.c]",
        "$[?!@.a]", "$[?!(@.a == 1)]", "$[?@.a == 'x']", "$[?@.a < 2 || @.b >= 1]", "$[?length(@.a) == 1]", "$[?count(@.*) > 1]", "$[?match(@.a, 'x.*')]", "$[?search(@.a, 'x') && !match(@.b, 'y')]", "$[?value(@..a) == 1]",
        "$[?@[?@.a]]", "$[?@.a[?@ > 1]]", "$..[?@.a]", "$[?@ == $.k]", "$[?$.a[0] == @.b]", "$[?@.a == @.b]", "$.a[?@ > 1, ?@ < 3]", "$[?@.a == true || @.a == null]", "$[?@['x y'] == 1]", "$..['x y']", "$['x y'].a", "$[?@.a.b.c]",
        "$[?@.a[0].b == 1]", "$['xy']", "$..['xy']", "$[?@['xy'] == 2]", "$[?@.a == 'a b']", "$[?@.a == 'ab']", "$[?search(@.a, 'a b')]", "$[?search(@.a, 'ab')]", "$.a[-1]", "$.a[-2:]", "$.a[:1]", "$.a[1:]", "$.a[::-1]", "$.a[0:2:1]", "$[*].a", "$[*][*]", "$..[0]", "$..[*]", "$.a..b", "$[?@.b == 1.5]", "$[?@.a == 1 && (@.b == 2 || @.c == 3)]",
        // names that are themselves wrapped in quotes and contain a solidus / backslash
        "$[\"'a/b'\"]", "$..[\"'a/b'\"]", "$[?@[\"'a/b'\"] == 1]", "$['a/b']", "$..['a/b']", "$['\"k\\\\1\"']", "$..['\"k\\\\1\"']", "$[?@['\"k\\\\1\"'] == 3]", "$['k\\\\1']", "$[\"'q'\"]", "$['q']", "$[\"'a/b'\", 'a/b']",
    ]
}

fn docs(rng: &mut Rng, n: usize) -> Vec<J> {
    let o = |v: Vec<(&str, J)>| J::Obj(v.into_iter().map(|(k, v)| (k.to_string(), v)).collect());
    let mut d = vec![
        o(vec![("a", J::Arr(vec![J::int(1), J::int(2), J::int(3), o(vec![("b", J::int(1))])])), ("b", o(vec![("a", J::int(1)), ("b", J::int(1)), ("c", J::int(3))])), ("k", J::int(1)), ("x y", o(vec![("a", J::int(1))])), ("xy", o(vec![("a", J::int(2))])), ("'a/b'", J::int(1)), ("a/b", J::int(2)), ("\"k\\1\"", J::int(3)), ("k\\1", J::int(4)), ("'q'", J::int(5)), ("q", J::int(6)), ("n", o(vec![("'a/b'", J::int(7)), ("a/b", J::int(8)), ("\"k\\1\"", J::int(9))]))]),
        J::Arr(vec![o(vec![("a", J::str("x")), ("b", J::int(1))]), o(vec![("a", J::str("xy")), ("b", J::float(1.5)), ("c", J::Null)]), o(vec![("a", J::Bool(true))]), o(vec![("a", o(vec![("b", o(vec![("c", J::int(1))]))]))]), o(vec![("x y", J::int(1)), ("xy", J::int(2))]), o(vec![("a", J::str("a b"))]), o(vec![("a", J::str("ab"))]), o(vec![("xy", J::int(1))]), J::Arr(vec![o(vec![("a", J::int(1))])])]),
        o(vec![("a", o(vec![("b", J::Arr(vec![J::int(0), J::int(2)])), ("a", o(vec![("b", J::int(2))]))])), ("b", J::Arr(vec![o(vec![("a", J::Arr(vec![J::int(1), J::int(5)]))])]))]),
    ];
    d.extend(gen::boundary_docs().into_iter().filter(|x| x.node_count() < 700).take(24));
    let mut cfg = gen::DocCfg::default();
    cfg.keys.push("xy".into());
    for k in ["line\u{85}next", "\u{80}", "a\u{7f}\u{e9}", "\u{9f}b", "\u{feff}a", "a\u{ffff}", "\u{a0}", "\u{2028}x", "\u{e9}", "\u{10d}aj", "vi\u{10d}", "\u{420}\u{43e}\u{441}\u{441}\u{438}\u{44f}", "\u{4e0a}", "\u{4e09}x", "x\u{120}", "\u{12e}", "a\u{15b}", "\u{127}b", "\u{124}", "\u{140}\u{12a}", "vi", "'a/b'", "a/b", "\"k\\1\"", "k\\1", "'q'", "q"] {
        cfg.keys.push(k.into());
    }
    cfg.strings.push("a b".into());
    for _ in 0..n {
        d.push(gen::random_doc(rng, &cfg));
    }
    d
}

/// classes of number spellings that denote the same number
fn number_classes() -> Vec<Vec<&'static str>> {
    vec![
        vec!["100", "1e2", "1E2", "1e+2", "1E+2", "100.0", "1.0e2", "10e1", "1000e-1", "100.00", "1.00E2", "1e0002", "1E+0002", "10e00001", "1e00000002", "100e0000", "100E-00000", "1000e-0001", "1.0e+0002", "0.01e00004"],
        vec!["0", "-0", "0.0", "-0.0", "0e0", "0E5", "0.0e-3", "-0e1"],
        vec!["0.5", "5e-1", "5E-1", "0.50", "0.05e1", "50e-2", "5e-0001", "5E-00001", "50e-00002", "0.05e0001"],
        vec!["-1.5", "-15e-1", "-1.50", "-0.15e1", "-150E-2"],
        vec!["1", "1.0", "1e0", "1E-0", "10e-1", "0.1e1", "1e0000", "1E+00000", "10e-0001", "0.1e00001"],
        vec!["9007199254740991", "9007199254740991.0", "9.007199254740991e15"],
        // float spellings only (an integer spelling beyond 2^53-1 is not a valid literal)
        vec!["2e16", "20000000000000000.0", "2.0e16", "20000000000000000.00", "2E+16", "0.2e17", "20000000000000000.0e0", "200000000000000000e-1"],
        vec!["-4e16", "-40000000000000000.0", "-4.0E16", "-0.4e17", "-40000000000000000.000"],
        vec!["1e300", "1.0e300", "10e299", "1E+300", "0.1e301", "1000000000000000000000000000000.0e270"],
        vec!["1e-7", "0.0000001", "1.0E-7", "10e-8", "0.1e-6", "0.00000010"],
        vec!["123456", "123456.0", "1.23456e5", "123456.00", "1234560e-1", "12345.6E1"],
        vec!["9007199254740992.0", "9.007199254740992e15", "9007199254740992.00", "900719925474099.2e1"],
        vec!["-9007199254740991", "-9007199254740991.0", "-9.007199254740991e15", "-9007199254740991.0e0"],
    ]
}

fn number_doc() -> J {
    let o = |v: J| J::Obj(vec![("v".into(), v)]);
    J::Arr(vec![o(J::int(100)), o(J::float(100.0)), o(J::int(99)), o(J::float(100.5)), o(J::str("100")), o(J::int(0)), o(J::float(-0.0)), o(J::float(0.5)), o(J::float(-1.5)), o(J::int(1)), o(J::float(1.0)), o(J::int(9007199254740991)), o(J::Null), J::Obj(vec![]),
        o(J::float(2e16)), o(J::float(2.0000000000000004e16)), o(J::int(20000000000000000)), o(J::float(-4e16)), o(J::int(-40000000000000000)), o(J::float(1e300)), o(J::float(1e-7)), o(J::int(123456)), o(J::float(123456.0)),
        o(J::float(9007199254740992.0)), o(J::int(9007199254740992)), o(J::int(-9007199254740991)), o(J::float(1.7976931348623157e308))])
}

fn observe(text: &str, doc: &Doc) -> Result<Vec<usize>, String> {
    match libapi::query_with_path(text, &doc.value) {
        LibOutcome::Ok(ns) => Ok(ns.iter().map(|x| x.0).collect()),
        LibOutcome::Err(e) => Err(format!("Err: {}", e.chars().take(120).collect::<String>())),
        LibOutcome::Panic(p) => Err(format!("panic: {}", p)),
    }
}

pub fn run(ctx: &Ctx) -> Result<Evidence, String> {
    let armed: Armed = arm(ctx, &|_| None)?;
    let mut rng = Rng::stream(ctx.seed, 13);
    let docs: Vec<Doc> = docs(&mut rng, ctx.tier.pick(40, 400)).iter().map(Doc::new).collect();
    let mut asts: Vec<Query> = curated().iter().map(|t| analyze(t).ast.unwrap_or_else(|| panic!("curated C13 query does not parse: {}", t))).collect();
    asts.extend(gen::boundary_queries().iter().step_by(3).filter_map(|t| analyze(t).ast));
    asts.extend(gen::composition_queries().iter().filter_map(|t| analyze(t).ast));
    let n_curated = asts.len();
    let mut qcfg = gen::QueryCfg::default();
    qcfg.names = ["a", "b", "c", "k", "x y", "xy", "_1", "\u{e9}", "line\u{85}next", "\u{80}", "a\u{7f}\u{e9}", "\u{9f}b", "\u{feff}a", "a\u{ffff}", "\u{a0}", "\u{2028}x", "\u{10d}aj", "vi\u{10d}", "\u{420}\u{43e}\u{441}\u{441}\u{438}\u{44f}", "\u{4e0a}", "\u{4e09}x", "x\u{120}", "\u{12e}", "a\u{15b}", "\u{127}b", "\u{124}", "\u{140}\u{12a}", "'a/b'", "a/b", "\"k\\1\"", "k\\1", "'q'", "q"].iter().map(|s| s.to_string()).collect();
    for _ in 0..ctx.tier.pick(1500, 250000) {
        asts.push(gen::random_query(&mut rng, &qcfg));
    }
    let ndoc = docs.len();
    let numdoc = Doc::new(&number_doc());
    let fndoc = Doc::new(&J::Arr(vec![
        J::Obj(vec![("l".into(), J::Arr((0..100).map(J::int).collect())), ("s".into(), J::str(&"x".repeat(100)))]),
        J::Obj(vec![("l".into(), J::Arr(vec![J::int(1)])), ("s".into(), J::str("y"))]),
        J::Obj(vec![("l".into(), J::Arr(vec![])), ("s".into(), J::str(""))]),
        J::Obj(vec![("l".into(), J::Arr(vec![J::int(1), J::int(2)]))]),
        J::Obj(vec![("s".into(), J::str("ab"))]),
        J::int(5),
    ]));
    let classes = number_classes();
    let n_num = classes.len() * 6 * 2;
    let seed = ctx.seed;
    let total = asts.len() + n_num;

    let acc = par_run(ctx, total, |i, acc: &mut Acc| {
        if i >= asts.len() {
            // number spellings on both sides of every operator
            let k = i - asts.len();
            let class = &classes[k / 12];
            let op = CmpOp::ALL[(k / 2) % 6];
            let lit_left = k % 2 == 1;
            let mut base: Option<(String, Result<Vec<usize>, String>)> = None;
            // the same spellings against function results and against another literal: computed
            // operands on both sides (no document number involved)
            {
                let mut fbase: Vec<Option<Result<Vec<usize>, String>>> = vec![None; 4];
                for t in class {
                    let texts = [
                        format!("$[?count(@.l[*]) {} {}]", op.text(), t),
                        format!("$[?{} {} length(@.l)]", t, op.text()),
                        format!("$[?length(@.s) {} {} || count(@.*) {} {}]", op.text(), t, op.text(), t),
                        format!("$[?{} {} {}]", class[0], op.text(), t),
                    ];
                    for (k, text) in texts.iter().enumerate() {
                        acc.evaluations += 1;
                        let got = observe(text, &fndoc);
                        acc.count("class_number-spelling-computed-operands", 1);
                        match &fbase[k] {
                            None => fbase[k] = Some(got),
                            Some(b) => {
                                if *b != got {
                                    ctx.violate(
                                        &format!("number spellings of one value compare differently against a computed operand: {} -> {:?}, another spelling of the same number -> {:?}", text, got.as_ref().map(|v| v.len()), b.as_ref().map(|v| v.len())),
                                        json!({"kind":"spelling","base": texts[k].replace(t, class[0]), "variant": text, "document": serde_json::from_str::<serde_json::Value>(&fndoc.text()).unwrap_or_default()}),
                                    );
                                } else {
                                    acc.count("held", 1);
                                }
                            }
                        }
                    }
                }
            }
            for t in class {
                let text = if lit_left { format!("$[?{} {} @.v]", t, op.text()) } else { format!("$[?@.v {} {}]", op.text(), t) };
                acc.evaluations += 1;
                let got = observe(&text, &numdoc);
                acc.count("class_number-spelling", 1);
                match &base {
                    None => base = Some((text.clone(), got)),
                    Some((bt, b)) => {
                        if *b != got {
                            ctx.violate(
                                &format!("number spellings of one value compare differently: {} -> {:?} but {} -> {:?}", bt, b.as_ref().map(|v| v.len()), text, got.as_ref().map(|v| v.len())),
                                json!({"kind":"spelling","base": bt, "variant": text, "document": serde_json::from_str::<serde_json::Value>(&numdoc.text()).unwrap_or_default()}),
                            );
                        } else {
                            acc.count("held", 1);
                            if matches!(&got, Ok(v) if !v.is_empty()) {
                                acc.nontrivial(text.as_bytes());
                            }
                        }
                    }
                }
            }
            return;
        }
        let ast = &asts[i];
        let mut r = Rng::stream(seed, 1300 + i as u64);
        let base_text = render(ast, &mut Spelling::canonical());
        // documents: curated ASTs on every document, random ones on three
        let doc_ids: Vec<usize> = if i < n_curated { (0..ndoc).collect() } else { (0..3).map(|_| r.below(ndoc as u64) as usize).collect() };
        // spellings
        let mut variants: Vec<(&'static str, String)> = vec![];
        let mk = |f: &dyn Fn(&mut Spelling)| {
            let mut s = Spelling::canonical();
            f(&mut s);
            s
        };
        variants.push(("name-shorthand", render(ast, &mut mk(&|s| s.names = NameStyle::Shorthand))));
        variants.push(("name-double-quoted", render(ast, &mut mk(&|s| s.names = NameStyle::Double))));
        variants.push(("wildcard-dot", render(ast, &mut mk(&|s| s.star_bracket = false))));
        variants.push(("filter-parentheses", render(ast, &mut mk(&|s| s.filter_parens = true))));
        variants.push(("redundant-parentheses", render(ast, &mut mk(&|s| s.extra_parens = 1))));
        variants.push(("redundant-parentheses-2", render(ast, &mut mk(&|s| { s.extra_parens = 2; s.filter_parens = true; }))));
        variants.push(("literal-double-quoted", render(ast, &mut mk(&|s| s.lit_double = true))));
        variants.push(("escape-unicode-upper", render(ast, &mut mk(&|s| s.esc = EscStyle::AllUnicodeUpper))));
        variants.push(("escape-solidus", render(ast, &mut mk(&|s| s.esc = EscStyle::Solidus))));
        variants.push(("escape-solidus-double-quoted", render(ast, &mut mk(&|s| { s.esc = EscStyle::Solidus; s.names = NameStyle::Double; s.lit_double = true; }))));
        {
            let mut s = Spelling::canonical();
            s.esc = EscStyle::Random;
            s.names = NameStyle::Random;
            s.rng = Some(Rng(r.next()));
            variants.push(("escape-random", render(ast, &mut s)));
        }
        // blanks: every S slot x each blank singly (linear sweep)
        let slots = count_slots(ast, &Spelling::canonical());
        for slot in 0..slots.min(if i < n_curated { 64 } else { 8 }) {
            for b in [" ", "\t", "\n", "\r"] {
                variants.push(("blank-single-slot", render(ast, &mut mk(&|s| s.blanks = Blanks::Only { slot, text: b.to_string() }))));
            }
        }
        variants.push(("blank-everywhere", render(ast, &mut mk(&|s| s.blanks = Blanks::All(" \t\n\r".into())))));
        // all 3^k combinations (nothing / SP / LF) for queries with k <= 6 slots
        if slots <= 6 && slots > 0 {
            let n = 3usize.pow(slots as u32);
            for m in 0..n {
                let mut digits = vec![];
                let mut x = m;
                for _ in 0..slots {
                    digits.push([0u8, 1, 3][x % 3]);
                    x /= 3;
                }
                variants.push(("blank-all-combinations", render(ast, &mut mk(&|s| s.blanks = Blanks::Mask(digits.clone())))));
            }
            acc.count("asts_with_exhaustive_blank_combinations", 1);
        } else {
            for _ in 0..6 {
                let mut s = Spelling::canonical();
                s.blanks = Blanks::Random { pm: 400 };
                s.rng = Some(Rng(r.next()));
                variants.push(("blank-random-mixture", render(ast, &mut s)));
            }
        }
        // when the canonical spelling itself needs an escape (a name that contains a single quote),
        // the open escape finding would explain every difference; such variants are compared with
        // the double-quoted spelling instead, if that one needs no escape
        let tb_canon = triggers(&analyze(&base_text));
        let alt_text: Option<String> = if tb_canon.name_esc_other || tb_canon.lit_esc {
            let t = render(ast, &mut mk(&|s| { s.names = NameStyle::Double; s.lit_double = true; }));
            let ta = triggers(&analyze(&t));
            if ta.name_esc_other || ta.lit_esc { None } else { Some(t) }
        } else {
            None
        };
        for di in doc_ids {
            let doc = &docs[di];
            let base = observe(&base_text, doc);
            let alt = alt_text.as_ref().map(|t| observe(t, doc));
            for (class, text) in &variants {
                if *text == base_text {
                    continue;
                }
                acc.evaluations += 1;
                acc.count(&format!("class_{}", class), 1);
                let got = observe(text, doc);
                if got != base {
                    // spellings with escapes run into the open escape-decoding findings
                    // (either side of the pair may be the one spelled with escapes: the canonical
                    // spelling of a name that contains a quote needs one)
                    let p = analyze(text);
                    let t = triggers(&p);
                    let tb = triggers(&analyze(&base_text));
                    let mut known = [(t.name_esc_other || tb.name_esc_other, "name_esc_other"), (t.lit_esc || tb.lit_esc, "lit_esc")].iter().find(|(c, n)| *c && armed.has(n)).map(|(_, n)| armed.id_of(n));
                    // the variant is escape-free and so is the alternative reference: judge that pair
                    if let (Some(a), false, false) = (&alt, t.name_esc_other, t.lit_esc) {
                        if got == *a {
                            acc.count("held_against_escape_free_reference", 1);
                            continue;
                        }
                        known = None;
                    }
                    match known {
                        Some(id) => ctx.add_known(&id, 1),
                        None => ctx.violate(
                            &format!("equivalent spellings give different results ({}): {:?} -> {} but {:?} -> {}", class, base_text, brief(&base), text, brief(&got)),
                            json!({"kind":"spelling","class": class, "base": base_text, "variant": text, "document": serde_json::from_str::<serde_json::Value>(&doc.text()).unwrap_or_default()}),
                        ),
                    }
                } else {
                    acc.count("held", 1);
                    if matches!(&got, Ok(v) if !v.is_empty()) {
                        acc.nontrivial(format!("{}\u{0}{}", text, di).as_bytes());
                        if acc.samples.len() < 3 {
                            acc.sample(json!({"class": class, "canonical": base_text, "spelling": text, "nodes": got.as_ref().map(|v| v.len()).unwrap_or(0)}));
                        }
                    }
                }
            }
        }
    });
    // spellings of very different length in use at the same time: every thread alternates between
    // the compact spelling and spellings padded with thousands of optional blanks and redundant
    // parentheses; the nodes must be those of the compact spelling evaluated before the threads start
    let mut acc = acc;
    {
        let threads = ctx.threads.clamp(2, 16);
        let rounds = ctx.tier.pick(1500, 20000);
        // a small document: the threads should spend their time in the parser, not in evaluation
        let small = Doc::from_value(serde_json::from_str(r#"[{"a":1,"b":"x","c":[1,2]},{"a":2,"k":{"a":1}},{"x y":1,"xy":2},1,"a",[1,[2]]]"#).expect("C13 small document"));
        let doc = &small;
        let numdoc = &numdoc;
        let mut jobs: Vec<(String, String, Vec<usize>, &Doc)> = vec![];
        for (k, t) in curated().iter().enumerate() {
            let ast = analyze(t).ast.unwrap();
            let compact = render(&ast, &mut Spelling::canonical());
            let mut s = Spelling::canonical();
            s.extra_parens = 2;
            s.filter_parens = true;
            s.blanks = Blanks::All(" \t\n\r".repeat(150 + 75 * (k % 3)));
            let verbose = render(&ast, &mut s);
            if let Ok(want) = observe(&compact, doc) {
                jobs.push((compact, verbose, want, doc));
            }
        }
        {
            let b = " \t\n\r".repeat(300);
            let compact = "$[?@.v==1e2]".to_string();
            let verbose = format!("${b}[{b}?{b}({b}({b}@{b}.v{b}=={b}100.0{b}){b}){b}]", b = b);
            if let Ok(want) = observe(&compact, numdoc) {
                jobs.push((compact, verbose, want, numdoc));
            }
        }
        let jobs = &jobs;
        let barrier = std::sync::Barrier::new(threads);
        let done = std::sync::atomic::AtomicU64::new(0);
        let verbose_threads = (threads + 3) / 4;
        let verbose_running = std::sync::atomic::AtomicU64::new(verbose_threads as u64);
        let longest = jobs.iter().map(|j| j.1.len()).max().unwrap_or(0);
        std::thread::scope(|s| {
            for t in 0..threads {
                let (barrier, done, verbose_running) = (&barrier, &done, &verbose_running);
                s.spawn(move || {
                    use std::sync::atomic::Ordering::SeqCst;
                    // one thread in four keeps to the verbose spellings for `rounds` rounds; the
                    // others keep to the compact ones for as long as a verbose thread is at work
                    let verbose = t % 4 == 0;
                    struct Leave<'a>(&'a std::sync::atomic::AtomicU64, bool);
                    impl Drop for Leave<'_> {
                        fn drop(&mut self) {
                            if self.1 {
                                self.0.fetch_sub(1, std::sync::atomic::Ordering::SeqCst);
                            }
                        }
                    }
                    let _leave = Leave(verbose_running, verbose);
                    barrier.wait();
                    for round in 0..(if verbose { rounds } else { rounds * 2000 }) {
                        if !verbose && verbose_running.load(SeqCst) == 0 {
                            break;
                        }
                        let job = &jobs[(round + t * 7) % jobs.len()];
                        let text = if verbose { &job.1 } else { &job.0 };
                        let got = observe(text, job.3);
                        if got.as_ref() != Ok(&job.2) {
                            ctx.violate(
                                &format!("with {} threads evaluating spellings of different length at the same time, a spelling of {:?} ({} bytes) gives {} instead of {} nodes", threads, job.0, text.len(), brief(&got), job.2.len()),
                                json!({"kind":"schedule","base": job.0, "variant": text, "threads": threads, "document": serde_json::from_str::<serde_json::Value>(&job.3.text()).unwrap_or_default()}),
                            );
                            return;
                        }
                        done.fetch_add(1, std::sync::atomic::Ordering::Relaxed);
                    }
                });
            }
        });
        let n = done.load(std::sync::atomic::Ordering::Relaxed);
        acc.evaluations += n;
        acc.count("class_concurrent-long-and-short-spellings", n);
        acc.count("concurrent_spelling_threads", threads as u64);
        acc.count("concurrent_longest_spelling_bytes", longest as u64);
    }
    let mut ev = Evidence::new("cases = (AST, spelling, document): curated ASTs covering each equivalence class and seeded random ASTs, each rendered canonically and in the spellings RFC 9535 declares equivalent: .n / ['n'] / [\"n\"], .* / [*], ..n / ..['n'], ?e / ?(e) / ?((e)) and parentheses around every basic expression, string literals in either quote style, \\uXXXX escapes, every S slot x {SP,HT,LF,CR} singly, all 3^k blank combinations for queries with k <= 6 slots, random mixtures beyond; number literals in all spellings of one value on both sides of every operator against int- and float-valued document numbers. The library's results (node addresses, in order) for a spelling and for the canonical spelling must be identical. Further: number classes above 2^53 in positional and exponent spellings; a concurrent phase (one thread in four on spellings padded with thousands of blanks and parentheses, the others on the compact ones); member names with DEL / C1 / BOM / non-characters; 3-/4-operand formulas in 13 contexts. Non-trivial = distinct (spelling, document) that differ from the canonical spelling and select at least one node.");
    ev.set("exhaustive", json!(false));
    ev.set("asts", json!(asts.len()));
    ev.assume("the renderer emits only spellings that RFC 9535 defines as equivalent (checked by parsing renderings back with oracle (b) in the oracle crate's tests)");
    ev.min_nontrivial = 1000;
    acc.into_evidence(&mut ev);
    Ok(ev)
}

fn brief(r: &Result<Vec<usize>, String>) -> String {
    match r {
        Ok(v) => format!("{} nodes", v.len()),
        Err(e) => e.clone(),
    }
}
