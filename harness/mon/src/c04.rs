//! C04: filter comparisons follow the RFC 9535 comparison table (section 2.3.5.2.2).
//! Exhaustive over a value universe x operand forms x six operators; three oracles:
//! (e) the table at the API boundary (both polarities), (g) operator laws on observed outcomes,
//! and H3 hook events (every comparison actually performed, also those masked by || / &&).

use crate::ctx::{par_run, Acc, Ctx, Evidence, Tier};
use crate::findings::{arm, Armed};
use crate::hookutil::{operand_brief, operand_value};
use crate::libapi::{self, Doc, LibOutcome};
use crate::trace::with_events;
use jsonpath_rust::verif::Event;
use oracle::ast::*;
use oracle::eval::compare;
use oracle::json::{J, N};
use oracle::render::{render, Spelling};
use oracle::rng::Rng;
use serde_json::json;
use std::sync::atomic::{AtomicU8, Ordering};

pub fn universe() -> Vec<(String, Option<J>)> {
    let o = |v: Vec<(&str, J)>| J::Obj(v.into_iter().map(|(k, v)| (k.to_string(), v)).collect());
    let mut u: Vec<(String, Option<J>)> = vec![("Nothing".into(), None)];
    let vals = vec![
        J::Null,
        J::Bool(true),
        J::Bool(false),
        J::int(0),
        J::float(-0.0),
        J::int(1),
        J::float(1.0),
        J::int(-1),
        J::float(1.5),
        J::float(1e-17),
        J::float(0.1),
        J::float(-0.5),
        J::float(-1.5),
        J::float(-3.75),
        J::int(-3),
        J::int(-2),
        J::float(2.5),
        J::int(2),
        J::int(9007199254740991),
        J::int(-9007199254740991),
        J::float(9007199254740991.0),
        J::int(9007199254740990),
        // neighbours in the float lattice and around 2^52 (where .5 is the last fraction)
        J::float(0.3),
        J::float(0.30000000000000004),
        J::float(1.0000000000000002),
        J::float(5e-324),
        J::float(4503599627370496.5),
        J::int(4503599627370496),
        J::int(4503599627370497),
        // integers beyond 2^53: judged against each other (exact), zone U2 against floats
        J::int(9007199254740992),
        J::int(9007199254740993),
        J::int(i64::MAX),
        J::int(i64::MAX - 1),
        J::int(i64::MIN),
        // integers above i64::MAX (a document can hold them; serde_json stores them as u64)
        J::uint(9223372036854775808),
        J::uint(18446744073709551614),
        J::uint(18446744073709551615),
        // floats far beyond 2^53 (judged against floats)
        J::float(-1e19),
        J::float(-9.5e18),
        J::float(1e19),
        J::float(-1e300),
        J::float(1.7976931348623157e308),
        J::str(""),
        J::str("a"),
        J::str("b"),
        J::str("ab"),
        J::str("A"),
        J::str("1"),
        J::str("\u{e9}"),
        J::str("\u{1f600}"),
        J::str("\u{ffff}"),
        J::Arr(vec![]),
        J::Arr(vec![J::int(1)]),
        J::Arr(vec![J::float(1.0)]),
        J::Arr(vec![J::int(1), J::Arr(vec![J::int(2)])]),
        // containers that differ only in a float's last bit
        J::Arr(vec![J::float(0.3), J::float(1.5)]),
        J::Arr(vec![J::float(0.30000000000000004), J::float(1.5)]),
        J::Obj(vec![("a".into(), J::float(0.3))]),
        J::Obj(vec![("a".into(), J::float(0.30000000000000004))]),
        J::Arr(vec![J::Arr(vec![J::int(1)])]),
        J::Arr(vec![J::int(1), J::int(2)]),
        J::Arr(vec![J::int(2), J::int(1)]),
        o(vec![]),
        o(vec![("a", J::int(1))]),
        o(vec![("a", J::float(1.0))]),
        o(vec![("a", J::int(1)), ("b", J::int(2))]),
        o(vec![("a", J::int(2)), ("b", J::int(1))]),
        o(vec![("b", J::int(1))]),
        o(vec![("a", J::Arr(vec![J::int(1)]))]),
        o(vec![("a", J::Null)]),
        o(vec![("'k'", J::int(1))]),
        o(vec![("k", J::int(1))]),
        o(vec![("\"k\"", J::int(1))]),
        J::Arr(vec![o(vec![("'k'", J::int(1))])]),
        // objects with more members than a small-size fast path would cover, incl. a
        // quote-wrapped member name, in two member orders
        J::Obj((0..10).map(|i| (if i == 4 { "'sku'".to_string() } else { format!("m{}", i) }, J::int(i))).collect()),
        J::Obj((0..10).rev().map(|i| (if i == 4 { "'sku'".to_string() } else { format!("m{}", i) }, J::int(i))).collect()),
        J::Obj((0..10).map(|i| (if i == 4 { "sku".to_string() } else { format!("m{}", i) }, J::int(i))).collect()),
        J::Obj((0..33).map(|i| (format!("m{}", i), J::float(i as f64))).collect()),
        J::Obj((0..33).map(|i| (format!("m{}", i), J::int(i))).collect()),
        // objects with more members than a machine word / two words have bits
        J::Obj((0..65).map(|i| (format!("m{}", i), J::int(i))).collect()),
        J::Obj((0..129).map(|i| (format!("m{:03}", i), J::int(i))).collect()),
        J::Obj((0..129).rev().map(|i| (format!("m{:03}", i), J::float(i as f64))).collect()),
        J::Obj((0..129).map(|i| (format!("m{:03}", i), J::int(if i == 128 { 0 } else { i }))).collect()),
        J::Obj((0..300).map(|i| (format!("m{:03}", i), J::int(i))).collect()),
        J::Arr((0..70).map(J::int).collect()),
        J::Arr((0..70).map(|i| if i == 69 { J::float(69.0) } else { J::int(i) }).collect()),
        J::Arr((0..70).map(|i| if i == 69 { J::int(68) } else { J::int(i) }).collect()),
        // structurally equal containers nested 49 / 60 / 100 levels deep, int vs float inside
        deep(49, J::int(1)),
        deep(49, J::float(1.0)),
        deep(60, J::float(1.0)),
        deep(100, J::int(1)),
        deep(100, J::float(1.0)),
        deep(100, J::int(2)),
    ];
    for v in vals {
        u.push((v.to_text(), Some(v)));
    }
    u
}

pub fn string_family() -> Vec<String> {
    let mut v: Vec<String> = vec![];
    for l in [1usize, 2, 7, 8, 9, 15, 16, 17, 31, 32, 33, 63, 64, 65] {
        v.push("a".repeat(l));
        v.push(format!("{}b", "a".repeat(l - 1)));
    }
    for l in [7usize, 15, 16, 31] {
        v.push(format!("{}\u{e9}", "a".repeat(l)));
        v.push(format!("{}\u{e9}a", "a".repeat(l)));
        v.push(format!("{}\u{ffff}", "a".repeat(l)));
        v.push(format!("{}\u{10000}", "a".repeat(l)));
    }
    for s in [
        "", "A", "B", "ab", "a ", " a", "a\u{0}", "\u{0}", "a\u{0}b", "\u{e9}", "e\u{301}", "\u{c9}", "\u{e9}\u{e9}", "10", "9", "1", "1.0", "01", "true", "null", "\u{ffff}", "\u{10000}",
        "\u{1f600}", "\u{d7ff}", "\u{e000}", "\u{df}", "ss", "\u{7f}", "\u{80}", "~", "\u{7ff}", "\u{800}", "a\tb", "a'b", "a\"b", "a\\b", "\u{feff}", "\u{feff}a",
    ] {
        v.push(s.to_string());
    }
    v.sort();
    v.dedup();
    v
}

fn deep(n: usize, leaf: J) -> J {
    let mut v = J::Arr(vec![leaf, J::str("x")]);
    for i in 0..n {
        v = if i % 2 == 0 { J::Obj(vec![("d".into(), v), ("k".into(), J::int(1))]) } else { J::Arr(vec![J::Null, v]) };
    }
    v
}

#[derive(Clone, Copy, Debug, PartialEq, Eq, Hash)]
pub enum Form {
    /// `@.l` / `@.r`
    CurMember,
    /// `$.l` / `$.r`
    RootMember,
    /// `@['l']` spelled with brackets, one level deeper: `@.w.l`
    Nested,
    /// literal (primitives only)
    Lit,
    /// value(@.l)
    ValueFn,
    /// `@.la[0]` (value as an array element reached by index)
    Elem,
}
const FORMS: [Form; 6] = [Form::CurMember, Form::RootMember, Form::Nested, Form::Lit, Form::ValueFn, Form::Elem];

fn literal_of(v: &J, alt: usize) -> Option<Literal> {
    Some(match v {
        J::Null => Literal::Null,
        J::Bool(true) => Literal::True,
        J::Bool(false) => Literal::False,
        J::Str(s) => Literal::Str(s.clone()),
        J::Num(N::Int(i)) => {
            // alternative spellings of the same number
            match (alt % 3, *i) {
                (1, i) if i.abs() < 1000 => Literal::num_text(&format!("{}.0", i)),
                (2, i) if i.abs() < 1000 => Literal::num_text(&format!("{}e0", i)),
                _ => Literal::int(*i),
            }
        }
        J::Num(N::Big(_)) => return None,
        J::Num(N::Float(f)) => {
            let t = if *f == 0.0 && f.is_sign_negative() {
                "-0.0".to_string()
            } else if *f == 1e-17 {
                "1e-17".to_string()
            } else if f.abs() >= 1e15 {
                format!("{:e}", f)
            } else if f.fract() == 0.0 && f.abs() < 1e15 {
                format!("{:.1}", f)
            } else if f.fract() == 0.0 {
                format!("{:.0}.0", f)
            } else {
                format!("{}", f)
            };
            Literal::num_text(&t)
        }
        _ => return None,
    })
}

fn operand(side: char, form: Form, v: &Option<J>, alt: usize) -> Option<Comparable> {
    let n = side.to_string();
    Some(match form {
        Form::CurMember => Comparable::Singular { root: Root::Current, steps: vec![SingStep::Name(n)] },
        Form::RootMember => Comparable::Singular { root: Root::Root, steps: vec![SingStep::Name(n)] },
        Form::Nested => Comparable::Singular { root: Root::Current, steps: vec![SingStep::Name("w".into()), SingStep::Name(n)] },
        Form::Elem => Comparable::Singular { root: Root::Current, steps: vec![SingStep::Name(format!("{}a", n)), SingStep::Index(if alt % 2 == 0 { 0 } else { -1 })] },
        Form::ValueFn => Comparable::Func(FuncCall { name: "value".into(), args: vec![Arg::Query(Query::current(vec![Segment::child(Selector::Name(n))]))] }),
        Form::Lit => Comparable::Lit(literal_of(v.as_ref()?, alt)?),
    })
}

/// carrier document: {"c":[{"l":a,"r":b,"w":{"l":a,"r":b},"la":[a],"ra":[b]}], "l":a, "r":b}
fn carrier(a: &Option<J>, b: &Option<J>) -> J {
    let mut inner: Vec<(String, J)> = vec![];
    let mut w: Vec<(String, J)> = vec![];
    let mut root: Vec<(String, J)> = vec![];
    if let Some(a) = a {
        inner.push(("l".into(), a.clone()));
        w.push(("l".into(), a.clone()));
        root.push(("l".into(), a.clone()));
        inner.push(("la".into(), J::Arr(vec![a.clone()])));
    } else {
        inner.push(("la".into(), J::Arr(vec![])));
    }
    if let Some(b) = b {
        inner.push(("r".into(), b.clone()));
        w.push(("r".into(), b.clone()));
        root.push(("r".into(), b.clone()));
        inner.push(("ra".into(), J::Arr(vec![b.clone()])));
    } else {
        inner.push(("ra".into(), J::Arr(vec![])));
    }
    inner.push(("w".into(), J::Obj(w)));
    root.push(("c".into(), J::Arr(vec![J::Obj(inner)])));
    J::Obj(root)
}

fn kind(v: &Option<J>) -> &'static str {
    match v {
        None => "nothing",
        Some(j) => j.kind(),
    }
}

pub fn run(ctx: &Ctx) -> Result<Evidence, String> {
    let armed: Armed = arm(ctx, &|_| None)?;
    let u = universe();
    // open finding: integers above i64::MAX are visible to the engine only through as_f64. The
    // finding explains exactly one outcome: the verdict computed on the f64 images of both operands.
    let is_big = |v: &Option<J>| matches!(v, Some(J::Num(N::Big(_))));
    let f64_image = |v: &Option<J>| -> Option<J> {
        match v {
            Some(J::Num(n)) => Some(J::float(n.as_f64())),
            other => other.clone(),
        }
    };
    let n = u.len();
    // form pairs: quick = a fixed covering set, thorough = all 36
    let mut form_pairs: Vec<(Form, Form)> = vec![];
    for (i, a) in FORMS.iter().enumerate() {
        for (k, b) in FORMS.iter().enumerate() {
            if ctx.tier == Tier::Thorough || i == k || (i + 1) % FORMS.len() == k || (i == 0) || (k == 0) {
                form_pairs.push((*a, *b));
            }
        }
    }
    let docs: Vec<Doc> = (0..n * n).map(|i| Doc::new(&carrier(&u[i / n].1, &u[i % n].1))).collect();
    let nfp = form_pairs.len();
    let total = n * n * nfp * 6;
    // observed outcome table for the law checks: [form pair][a][b][op] -> 0 unknown / 1 false / 2 true
    let table: Vec<AtomicU8> = (0..total).map(|_| AtomicU8::new(0)).collect();
    let idx = |fp: usize, a: usize, b: usize, op: usize| ((fp * n + a) * n + b) * 6 + op;

    let acc = par_run(ctx, total, |i, acc: &mut Acc| {
        let op_i = i % 6;
        let b_i = (i / 6) % n;
        let a_i = (i / 6 / n) % n;
        let fp_i = i / 6 / n / n;
        let (fa, fb) = form_pairs[fp_i];
        let op = CmpOp::ALL[op_i];
        let (va, vb) = (&u[a_i].1, &u[b_i].1);
        let (lhs, rhs) = match (operand('l', fa, va, a_i + b_i), operand('r', fb, vb, a_i * 7 + b_i)) {
            (Some(l), Some(r)) => (l, r),
            _ => return, // no literal form for containers / Nothing
        };
        // zone U2: a number outside the exact range meets a float (or is one)
        {
            let out_of_range = |v: &Option<J>| matches!(v, Some(J::Num(x)) if !x.in_exact_range());
            let is_int = |v: &Option<J>| matches!(v, Some(J::Num(x)) if x.is_integer_typed());
            let both_num = matches!((va, vb), (Some(J::Num(_)), Some(J::Num(_))));
            let is_float = |v: &Option<J>| matches!(v, Some(J::Num(N::Float(_))));
            if both_num && (out_of_range(va) || out_of_range(vb)) && !(is_int(va) && is_int(vb)) && !(is_float(va) && is_float(vb)) {
                ctx.add_skipped("U2", 1);
                return;
            }
            // literals beyond the range cannot be written
            // integer literals beyond the range cannot be written (zone U2 of C06); floats can
            if (fa == Form::Lit && out_of_range(va) && is_int(va)) || (fb == Form::Lit && out_of_range(vb) && is_int(vb)) {
                return;
            }
        }
        let doc = &docs[a_i * n + b_i];
        let cmp = Basic::Cmp { lhs, op, rhs };
        let expected = compare(op, va.as_ref(), vb.as_ref());
        let pos = Query::root(vec![Segment::child(Selector::Name("c".into())), Segment::child(Selector::Filter(Or::single(cmp.clone())))]);
        let neg = Query::root(vec![Segment::child(Selector::Name("c".into())), Segment::child(Selector::Filter(Or::single(Basic::Paren { not: true, inner: Or::single(cmp.clone()) })))]);
        // masked: (cmp) || true-ish and (cmp) && false-ish would hide the verdict at the boundary
        let masked = Query::root(vec![
            Segment::child(Selector::Name("c".into())),
            Segment::child(Selector::Filter(Or(vec![And(vec![cmp.clone()]), And(vec![Basic::Test { not: false, test: TestExpr::Query(Query::current(vec![])) }])]))),
        ]);
        let mut sp = Spelling::canonical();
        let text = render(&pos, &mut sp);
        let text_neg = render(&neg, &mut Spelling::canonical());
        acc.evaluations += 1;
        let observe = |t: &str| -> Result<bool, String> {
            match libapi::query_with_path(t, &doc.value) {
                LibOutcome::Ok(ns) => Ok(!ns.is_empty()),
                o => Err(o.brief()),
            }
        };
        let cell = format!("{}x{}:{}:{:?}/{:?}", kind(va), kind(vb), op.text(), fa, fb);
        let report = |what: String| {
            ctx.violate(
                &what,
                json!({"kind":"query","query": text, "document": serde_json::from_str::<serde_json::Value>(&doc.text()).unwrap_or_default(),
                       "lhs": u[a_i].0, "rhs": u[b_i].0, "op": op.text(), "expected_truth": expected}),
            )
        };
        match (observe(&text), observe(&text_neg)) {
            (Ok(p), Ok(q)) => {
                table[idx(fp_i, a_i, b_i, op_i)].store(if p { 2 } else { 1 }, Ordering::Relaxed);
                if (is_big(va) || is_big(vb)) && armed.has("int_beyond_i64") && p != expected {
                    let model = compare(op, f64_image(va).as_ref(), f64_image(vb).as_ref());
                    if p == model && q != p {
                        ctx.add_known(&armed.id_of("int_beyond_i64"), 1);
                    } else {
                        report(format!("comparison {} {} {} ({:?} {:?}) evaluated to {}; RFC 9535 says {}, and the open finding about integers beyond i64 explains only {}", u[a_i].0, op.text(), u[b_i].0, fa, fb, p, expected, model));
                    }
                } else if p != expected {
                    report(format!("comparison {} {} {} ({:?} {:?}) evaluated to {} but RFC 9535 says {}", u[a_i].0, op.text(), u[b_i].0, fa, fb, p, expected));
                } else if q == p {
                    report(format!("!(L {} R) and (L {} R) both select {} for {} / {}", op.text(), op.text(), p, u[a_i].0, u[b_i].0));
                } else {
                    acc.count("held", 1);
                }
            }
            (Err(e), _) | (_, Err(e)) => report(format!("comparison query failed: {}", e)),
        }
        acc.mark("cells_type_x_type_x_op_x_forms", cell.clone());
        acc.nontrivial(cell.as_bytes());
        if i % 997 == 0 {
            acc.sample(json!({"query": text, "lhs": u[a_i].0, "rhs": u[b_i].0, "expected": expected}));
        }
        // H3: watch the comparison as actually performed, in a context that masks its result
        // (the hook reports an integer above i64::MAX as the float the engine sees: such cases are
        // judged at the boundary only)
        if i % 5 == 0 && !(is_big(va) || is_big(vb)) {
            let mtext = render(&masked, &mut Spelling::canonical());
            let (_, events) = with_events(|| libapi::query_with_path(&mtext, &doc.value));
            for e in events {
                if let Event::Cmp { op: eop, lhs, rhs, verdict } = e {
                    acc.count("h3_cmp_events", 1);
                    let (l, r) = match (operand_value(&lhs), operand_value(&rhs)) {
                        (Ok(l), Ok(r)) => (l, r),
                        _ => continue,
                    };
                    let o = match CmpOp::from_text(eop) {
                        Some(o) => o,
                        None => continue,
                    };
                    let want = compare(o, l.as_ref(), r.as_ref());
                    if verdict != Some(want) {
                        report(format!("H3: comparison performed inside a masked filter: {} {} {} gave {:?}, RFC 9535 says {}", operand_brief(&lhs), eop, operand_brief(&rhs), verdict, want));
                    } else {
                        acc.count("h3_cmp_events_agree", 1);
                    }
                }
            }
        }
    });

    // (g) operator laws on the observed outcomes, no oracle involved
    let mut laws = 0u64;
    let get = |fp: usize, a: usize, b: usize, op: CmpOp| -> Option<bool> {
        let o = CmpOp::ALL.iter().position(|x| *x == op).unwrap();
        match table[idx(fp, a, b, o)].load(Ordering::Relaxed) {
            1 => Some(false),
            2 => Some(true),
            _ => None,
        }
    };
    for fp in 0..nfp {
        // mirrored laws need the same forms on both sides
        let sym = form_pairs[fp].0 == form_pairs[fp].1;
        for a in 0..n {
            for b in 0..n {
                let g = |op| get(fp, a, b, op);
                if let (Some(eq), Some(ne), Some(lt), Some(le), Some(gt), Some(ge)) = (g(CmpOp::Eq), g(CmpOp::Ne), g(CmpOp::Lt), g(CmpOp::Le), g(CmpOp::Gt), g(CmpOp::Ge)) {
                    laws += 3;
                    let mut bad = vec![];
                    if ne == eq {
                        bad.push("!= is not the negation of ==");
                    }
                    if le != (lt || eq) {
                        bad.push("<= is not (< or ==)");
                    }
                    if ge != (gt || eq) {
                        bad.push(">= is not (> or ==)");
                    }
                    if (is_big(&u[a].1) || is_big(&u[b].1)) && armed.has("int_beyond_i64") {
                        // the laws fail there as a consequence of the open finding
                        continue;
                    }
                    let both_num = matches!((&u[a].1, &u[b].1), (Some(J::Num(_)), Some(J::Num(_))));
                    let both_str = matches!((&u[a].1, &u[b].1), (Some(J::Str(_)), Some(J::Str(_))));
                    if both_num || both_str {
                        laws += 1;
                        if [lt, eq, gt].iter().filter(|x| **x).count() != 1 {
                            bad.push("not exactly one of <, ==, > holds for two numbers / two strings");
                        }
                    } else {
                        laws += 1;
                        if lt || gt {
                            bad.push("< or > holds across types / for non-orderable values");
                        }
                    }
                    if sym {
                        if let (Some(lt2), Some(le2)) = (get(fp, b, a, CmpOp::Lt), get(fp, b, a, CmpOp::Le)) {
                            laws += 2;
                            if gt != lt2 {
                                bad.push("a > b differs from b < a");
                            }
                            if ge != le2 {
                                bad.push("a >= b differs from b <= a");
                            }
                        }
                    }
                    for m in bad {
                        ctx.violate(
                            &format!("law violated on observed outcomes: {} for lhs={} rhs={} forms={:?}", m, u[a].0, u[b].0, form_pairs[fp]),
                            json!({"kind":"law","lhs": u[a].0, "rhs": u[b].0, "forms": format!("{:?}", form_pairs[fp]), "observed": {"==":eq,"!=":ne,"<":lt,"<=":le,">":gt,">=":ge}}),
                        );
                    }
                }
            }
        }
    }
    // string family: all ordered pairs of strings chosen for length classes, long common
    // prefixes, multi-byte characters at 8/16/32-byte boundaries, code points whose UTF-16 order
    // differs from their scalar-value order, look-alikes (case, composed / decomposed, digits)
    let mut acc = acc;
    {
        let strs = string_family();
        let m = strs.len();
        let sdocs: Vec<Doc> = (0..m * m).map(|i| Doc::new(&carrier(&Some(J::str(&strs[i / m])), &Some(J::str(&strs[i % m]))))).collect();
        let lit_ok = |s: &str| s.chars().all(|c| c >= ' ' && c != '\'' && c != '"' && c != '\\');
        let forms3 = [(Form::CurMember, Form::CurMember), (Form::CurMember, Form::Lit), (Form::Lit, Form::RootMember)];
        let sacc = par_run(ctx, m * m * 3, |i, acc: &mut Acc| {
            let (fa, fb) = forms3[i % 3];
            let (a_i, b_i) = ((i / 3) / m, (i / 3) % m);
            let (sa, sb) = (&strs[a_i], &strs[b_i]);
            if (fa == Form::Lit && !lit_ok(sa)) || (fb == Form::Lit && !lit_ok(sb)) {
                return;
            }
            let (va, vb) = (Some(J::str(sa)), Some(J::str(sb)));
            let doc = &sdocs[a_i * m + b_i];
            let mut seen = [false; 6];
            for (k, op) in CmpOp::ALL.iter().enumerate() {
                let (lhs, rhs) = match (operand('l', fa, &va, 0), operand('r', fb, &vb, 0)) {
                    (Some(l), Some(r)) => (l, r),
                    _ => return,
                };
                let q = Query::root(vec![Segment::child(Selector::Name("c".into())), Segment::child(Selector::Filter(Or::single(Basic::Cmp { lhs, op: *op, rhs })))]);
                let text = render(&q, &mut Spelling::canonical());
                let expected = compare(*op, va.as_ref(), vb.as_ref());
                acc.evaluations += 1;
                match libapi::query_with_path(&text, &doc.value) {
                    LibOutcome::Ok(ns) => {
                        seen[k] = !ns.is_empty();
                        if ns.is_empty() == expected {
                            ctx.violate(
                                &format!("string comparison {:?} {} {:?} ({:?} {:?}) evaluated to {} but RFC 9535 says {}", sa, op.text(), sb, fa, fb, !ns.is_empty(), expected),
                                json!({"kind":"query","query": text, "document": serde_json::from_str::<serde_json::Value>(&doc.text()).unwrap_or_default(), "expected_truth": expected}),
                            );
                        } else {
                            acc.count("held", 1);
                            acc.count("string_family_held", 1);
                        }
                    }
                    o => ctx.violate(&format!("comparison query failed: {}", o.brief()), json!({"kind":"query","query": text, "document": serde_json::from_str::<serde_json::Value>(&doc.text()).unwrap_or_default()})),
                }
            }
            // law on the observed outcomes: exactly one of <, ==, > for two strings
            if [seen[0], seen[2], seen[4]].iter().filter(|x| **x).count() != 1 || seen[1] == seen[0] || seen[3] != (seen[2] || seen[0]) || seen[5] != (seen[4] || seen[0]) {
                ctx.violate(
                    &format!("law violated on observed outcomes for the strings {:?} and {:?} ({:?} {:?}): == != < <= > >= gave {:?}", sa, sb, fa, fb, seen),
                    json!({"kind":"law","lhs": sa, "rhs": sb, "forms": format!("{:?} {:?}", fa, fb), "observed": format!("{:?}", seen)}),
                );
            }
            acc.nontrivial(format!("str:{}:{}:{}", a_i, b_i, i % 3).as_bytes());
        });
        acc = Acc::merge(vec![acc, sacc]);
        acc.count("string_family_size", m as u64);
    }
    // random number pairs: full-range and near-2^53 integers, floats from random bit patterns,
    // neighbours (a, a +- 1), (f, next float), (integer, its float image)
    {
        let n_pairs = ctx.tier.pick(4000, 4_000_000);
        let seed = ctx.seed;
        let racc = par_run(ctx, n_pairs, |i, acc: &mut Acc| {
            let mut r = Rng::stream(seed, 4_000_000 + i as u64);
            let num = |r: &mut Rng| -> J {
                match r.below(7) {
                    0 => J::int(r.next() as i64),
                    1 => J::int(9007199254740992i64 - 3 + r.below(7) as i64),
                    2 => J::int(-(9007199254740992i64 - 3 + r.below(7) as i64)),
                    3 => J::int(r.below(2001) as i64 - 1000),
                    4 => {
                        let f = f64::from_bits(r.next());
                        if f.is_finite() { J::float(f) } else { J::float(0.5) }
                    }
                    5 => J::float((r.below(4001) as f64 - 2000.0) / 8.0),
                    _ => J::float((r.below(2001) as i64 - 1000) as f64 * 1e300),
                }
            };
            let a = num(&mut r);
            let b = match r.below(5) {
                0 => match &a { J::Num(N::Int(x)) => J::int(x.saturating_add(1)), J::Num(N::Float(f)) => J::float(f64::from_bits(f.to_bits().wrapping_add(1))), o => o.clone() },
                1 => match &a { J::Num(N::Int(x)) => J::float(*x as f64), J::Num(N::Float(f)) if f.fract() == 0.0 && f.abs() < 9.0e18 => J::int(*f as i64), o => o.clone() },
                2 => a.clone(),
                _ => num(&mut r),
            };
            let fin = |v: &J| matches!(v, J::Num(N::Float(f)) if !f.is_finite());
            if fin(&a) || fin(&b) {
                return;
            }
            let (va, vb) = (Some(a.clone()), Some(b.clone()));
            let mixed = matches!((&a, &b), (J::Num(x), J::Num(y)) if x.is_integer_typed() != y.is_integer_typed());
            let out = |v: &J| matches!(v, J::Num(x) if !x.in_exact_range());
            if mixed && (out(&a) || out(&b)) {
                ctx.add_skipped("U2", 1);
                return;
            }
            let doc = Doc::new(&carrier(&va, &vb));
            for op in CmpOp::ALL {
                let q = Query::root(vec![Segment::child(Selector::Name("c".into())), Segment::child(Selector::Filter(Or::single(Basic::Cmp { lhs: operand('l', Form::CurMember, &va, 0).unwrap(), op, rhs: operand('r', Form::Nested, &vb, 0).unwrap() })))]);
                let text = render(&q, &mut Spelling::canonical());
                let expected = compare(op, va.as_ref(), vb.as_ref());
                acc.evaluations += 1;
                match libapi::query_with_path(&text, &doc.value) {
                    LibOutcome::Ok(ns) if ns.is_empty() != expected => {
                        acc.count("held", 1);
                        acc.count("random_number_pairs_held", 1);
                    }
                    o => ctx.violate(
                        &format!("comparison {} {} {} evaluated to {} but RFC 9535 says {}", a.to_text(), op.text(), b.to_text(), o.brief(), expected),
                        json!({"kind":"query","query": text, "document": serde_json::from_str::<serde_json::Value>(&doc.text()).unwrap_or_default(), "expected_truth": expected}),
                    ),
                }
            }
        });
        acc = Acc::merge(vec![acc, racc]);
    }
    // number literals written with many digits: positional decimals with 1..40 fraction digits,
    // integer parts of 17..25 digits before a fraction, 19..40 significant digits, exponent forms
    // - the literal denotes the double that correct rounding gives (Rust's own parser is the
    // oracle for decimal -> binary), and is compared with that double and its neighbours
    {
        let n_lits = ctx.tier.pick(3000, 300_000);
        let seed = ctx.seed;
        let lacc = par_run(ctx, n_lits, |i, acc: &mut Acc| {
            let mut r = Rng::stream(seed, 9_000_000 + i as u64);
            let x: f64 = match r.below(6) {
                0 => 1.234567890123456e-8 * (1 + r.below(9)) as f64,
                1 => 10f64.powi(-(r.below(30) as i32)),
                2 => (r.below(1_000_000) as f64) / 7.0,
                3 => f64::from_bits(0x3ff0000000000000 + r.below(1 << 20)),
                4 => (r.next() % 100_000_000_000_000_000) as f64 + 0.5,
                _ => f64::from_bits(r.next() & 0x7fef_ffff_ffff_ffff),
            };
            if !x.is_finite() || x == 0.0 {
                return;
            }
            let text = match r.below(5) {
                0 => format!("{:.*}", 1 + r.below(40) as usize, x),
                1 => format!("{:.*e}", 15 + r.below(25) as usize, x),
                2 => format!("{:.23}", x),
                3 => format!("{}", x),
                _ => format!("{:.*}", 17 + r.below(8) as usize, x),
            };
            // keep to what the grammar calls a number and to a bounded length
            // (an integer spelling beyond 2^53-1 is not a valid literal: zone U2 of C06)
            if text.len() > 120 || text.contains("inf") || text.contains("NaN") || !(text.contains('.') || text.contains('e')) {
                return;
            }
            let text = if r.chance(1, 4) { format!("-{}", text) } else { text };
            let lit: f64 = match text.parse() {
                Ok(v) => v,
                Err(_) => return,
            };
            if !lit.is_finite() {
                return;
            }
            let neighbours = [lit, f64::from_bits(lit.to_bits() + 1), f64::from_bits(lit.to_bits().wrapping_sub(1))];
            let doc = Doc::new(&J::Arr(neighbours.iter().filter(|v| v.is_finite()).map(|v| J::Obj(vec![("v".into(), J::float(*v))])).collect()));
            for op in CmpOp::ALL {
                let q = format!("$[?@.v {} {}]", op.text(), text);
                acc.evaluations += 1;
                let want: Vec<usize> = match &doc.j {
                    J::Arr(items) => items.iter().enumerate().filter(|(_, it)| compare(op, it.child(&oracle::json::Step::Key("v".into())), Some(&J::float(lit)))).map(|(k, _)| k).collect(),
                    _ => vec![],
                };
                match libapi::query_with_path(&q, &doc.value) {
                    LibOutcome::Ok(ns) => {
                        let got: Vec<usize> = ns.iter().filter_map(|n| doc.loc_of(n.0)).filter_map(|l| match l.first() { Some(oracle::json::Step::Idx(k)) => Some(*k), _ => None }).collect();
                        if got != want {
                            ctx.violate(&format!("{} keeps elements {:?} of the three neighbouring doubles, correct rounding of the literal gives {:?}", q, got, want), json!({"kind":"query","query": q, "document": serde_json::from_str::<serde_json::Value>(&doc.text()).unwrap_or_default()}));
                        } else {
                            acc.count("held", 1);
                            acc.count("long_decimal_literals_held", 1);
                        }
                    }
                    o => ctx.violate(&format!("{}: {}", q, o.brief()), json!({"kind":"query","query": q, "document": serde_json::from_str::<serde_json::Value>(&doc.text()).unwrap_or_default()})),
                }
            }
        });
        acc = Acc::merge(vec![acc, lacc]);
    }
    // containers that differ in exactly one position - every position of arrays of 1..65
    // elements and of objects of 1..33 members - against the base container and against a copy
    {
        let lens = [1usize, 2, 3, 7, 8, 15, 16, 17, 18, 31, 32, 33, 63, 64, 65];
        let mut pairs: Vec<(J, J, bool)> = vec![];
        for &l in &lens {
            let base = J::Arr((0..l as i64).map(J::int).collect());
            pairs.push((base.clone(), base.clone(), true));
            for p in 0..l {
                let mut v: Vec<J> = (0..l as i64).map(J::int).collect();
                v[p] = if p % 2 == 0 { J::int(-1) } else { J::float(p as f64 + 0.5) };
                pairs.push((base.clone(), J::Arr(v), false));
            }
            if l <= 33 {
                let ob = J::Obj((0..l).map(|i| (format!("m{:02}", i), J::int(i as i64))).collect());
                pairs.push((ob.clone(), ob.clone(), true));
                for p in 0..l {
                    let mut m: Vec<(String, J)> = (0..l).map(|i| (format!("m{:02}", i), J::int(i as i64))).collect();
                    m[p].1 = J::str("x");
                    pairs.push((ob.clone(), J::Obj(m.clone()), false));
                    // the same members in reverse order, one differing
                    m.reverse();
                    pairs.push((ob.clone(), J::Obj(m), false));
                }
            }
        }
        let n_pairs = pairs.len();
        let pacc = par_run(ctx, n_pairs, |i, acc: &mut Acc| {
            let (a, b, equal) = &pairs[i];
            // nested one level too (inside an array) every other case
            let (a, b) = if i % 2 == 0 { (a.clone(), b.clone()) } else { (J::Arr(vec![J::int(0), a.clone()]), J::Arr(vec![J::int(0), b.clone()])) };
            let doc = Doc::new(&carrier(&Some(a.clone()), &Some(b.clone())));
            for (op, want) in [(CmpOp::Eq, *equal), (CmpOp::Ne, !*equal), (CmpOp::Le, *equal), (CmpOp::Ge, *equal), (CmpOp::Lt, false)] {
                let q = format!("$.c[?@.l {} @.r]", op.text());
                acc.evaluations += 1;
                match libapi::query_with_path(&q, &doc.value) {
                    LibOutcome::Ok(ns) if ns.is_empty() != want => {
                        acc.count("held", 1);
                        acc.count("single_position_difference_held", 1);
                    }
                    o => ctx.violate(
                        &format!("{} between two containers of {} elements that {}: {} (RFC 9535 says {})", op.text(), match &pairs[i].0 { J::Arr(v) => v.len(), J::Obj(m) => m.len(), _ => 0 }, if *equal { "are equal" } else { "differ in exactly one position" }, o.brief(), want),
                        json!({"kind":"query","query": q, "document": serde_json::from_str::<serde_json::Value>(&doc.text()).unwrap_or_default(), "expected_truth": want}),
                    ),
                }
            }
        });
        acc = Acc::merge(vec![acc, pacc]);
    }
    // random strings of 16..48 characters with a common prefix of random length and tails that
    // differ in several places (date-like, path-like, multi-byte)
    {
        let n = ctx.tier.pick(3000, 300_000);
        let seed = ctx.seed;
        let sacc = par_run(ctx, n, |i, acc: &mut Acc| {
            let mut r = Rng::stream(seed, 17_000_000 + i as u64);
            let alpha: Vec<char> = "0123456789-:TZ/abz\u{e9}\u{100}\u{1f600}".chars().collect();
            let gen = |r: &mut Rng, n: usize| -> String { (0..n).map(|_| *r.pick(&alpha[..])).collect() };
            let (np, na, nb) = (r.below(30) as usize, 1 + r.below(24) as usize, 1 + r.below(24) as usize);
            let prefix = gen(&mut r, np);
            let (ta, tb) = (gen(&mut r, na), gen(&mut r, nb));
            let (sa, sb) = (format!("{}{}", prefix, ta), format!("{}{}", prefix, tb));
            let (va, vb) = (Some(J::str(&sa)), Some(J::str(&sb)));
            let doc = Doc::new(&carrier(&va, &vb));
            let lit_ok = |s: &str| s.chars().all(|c| c >= ' ' && c != '\'' && c != '"' && c != '\\');
            for op in CmpOp::ALL {
                let q = if i % 3 == 0 && lit_ok(&sb) { format!("$.c[?@.l {} '{}']", op.text(), sb) } else { format!("$.c[?@.l {} @.r]", op.text()) };
                let want = compare(op, va.as_ref(), vb.as_ref());
                acc.evaluations += 1;
                match libapi::query_with_path(&q, &doc.value) {
                    LibOutcome::Ok(ns) if ns.is_empty() != want => {
                        acc.count("held", 1);
                        acc.count("random_long_strings_held", 1);
                    }
                    o => ctx.violate(&format!("string comparison {:?} {} {:?}: {} (RFC 9535 says {})", sa, op.text(), sb, o.brief(), want), json!({"kind":"query","query": q, "document": serde_json::from_str::<serde_json::Value>(&doc.text()).unwrap_or_default(), "expected_truth": want})),
                }
            }
        });
        acc = Acc::merge(vec![acc, sacc]);
    }
    // member names that are wrapped in quotes next to their plain twins, as operands written in
    // either quoting style (judged by the reference evaluator on the whole query)
    {
        let d = J::Obj(vec![("rows".into(), J::Arr(vec![
            J::Obj(vec![("a".into(), J::int(1)), ("\"a\"".into(), J::int(2)), ("b".into(), J::int(1)), ("'b'".into(), J::int(2))]),
            J::Obj(vec![("a".into(), J::int(2)), ("\"a\"".into(), J::int(2)), ("b".into(), J::str("x")), ("'b'".into(), J::Arr(vec![J::int(1)]))]),
            J::Obj(vec![("a".into(), J::int(3)), ("b".into(), J::int(3))]),
            J::Obj(vec![("\"a\"".into(), J::int(1)), ("'b'".into(), J::int(1))]),
        ]))]);
        let doc = Doc::new(&d);
        let names_a = ["@[\"a\"]", "@['a']", "@.a", "@['\"a\"']"];
        let names_b = ["@['b']", "@[\"b\"]", "@.b", "@[\"'b'\"]"];
        let armed_q: Armed = arm(ctx, &|_| None)?;
        let mut n = 0u64;
        for set in [names_a, names_b] {
            for l in set {
                for r in set {
                    for op in CmpOp::ALL {
                        let q = format!("$.rows[?{} {} {}]", l, op.text(), r);
                        let parsed = oracle::parse::analyze(&q);
                        if parsed.ast.is_none() {
                            continue;
                        }
                        n += 1;
                        let j = crate::judge::judge_query(&q, &parsed, &doc, crate::judge::NODES, &armed_q);
                        if let crate::judge::Verdict::Violated(m) = &j.verdict {
                            ctx.violate(&format!("{}: {}", q, m), crate::judge::replay_json("query", &q, &doc, &j));
                        }
                    }
                }
            }
        }
        acc.count("quote_wrapped_operand_names_cases", n);
        acc.evaluations += n;
    }
    let mut ev = Evidence::new("cases = (lhs value, rhs value, operator, operand form pair): all ordered pairs of a value universe (Nothing + every JSON type incl. int/float twins, -0.0, 1e-17, 2^53-1, empty/nested containers, unicode strings) x 6 operators x operand forms (@.m, $.m, nested singular path, array element by index, literal in several number spellings, value(@.m)). Truth observed at the boundary as 'carrier element kept' for L op R and for !(L op R). A second exhaustive family: all ordered pairs of ~90 strings (length classes 1..65, long common prefixes, multi-byte characters at 8/16/32-byte boundaries, NUL, UTF-16 vs scalar order, look-alikes) x 6 operators x 3 form pairs, with the trichotomy law on the observed outcomes. The universe includes float-lattice neighbours, containers differing in a float's last bit, and integers above i64::MAX (open finding KF-C04-integers-beyond-i64, exact effect model). Also: random number pairs; number literals written with 1..40 fraction digits / 15..40 significant digits against the correctly rounded double and its neighbours; quote-wrapped member names as operands in either quoting style; objects of up to 300 members. Non-trivial = distinct (type(lhs), type(rhs), op, form pair) cells.");
    ev.set("exhaustive", json!(true));
    ev.set("universe_size", json!(n));
    ev.set("form_pairs", json!(nfp));
    ev.set("law_instances_checked", json!(laws));
    ev.assume("the comparison table (oracle e) transcribes RFC 9535 2.3.5.2.2; numbers compared exactly; the universe stays inside the exact integer range (zone U2 is not judged)");
    ev.min_nontrivial = 200;
    acc.into_evidence(&mut ev);
    Ok(ev)
}
