//! C03: each reported path is the Normalized Path of the reported node; same path <=> same node;
//! re-running a reported path returns exactly that node with that path.
//! Oracle: npath(location found by address) - independent of how the query reached the node.

use crate::ctx::{par_run, Acc, Ctx, Evidence};
use crate::findings::{arm, Armed};
use crate::judge::{self, judge_query, Verdict, PATHS};
use crate::libapi::{self, Doc, LibOutcome};
use oracle::ast::*;
use oracle::gen;
use oracle::json::{Step, J};
use oracle::npath;
use oracle::parse::analyze;
use oracle::render::{render, EscStyle, NameStyle, Spelling};
use oracle::rng::Rng;
use serde_json::json;

pub fn name_class(k: &str) -> &'static str {
    if k.is_empty() {
        return "empty";
    }
    if k.chars().count() > 100 {
        return "long";
    }
    if k.len() >= 2 && ((k.starts_with('\'') && k.ends_with('\'')) || (k.starts_with('"') && k.ends_with('"'))) {
        return "quote-wrapped";
    }
    if k.contains('\'') {
        return "single-quote";
    }
    if k.contains('"') {
        return "double-quote";
    }
    if k.contains('\\') {
        return "backslash";
    }
    if k.chars().any(|c| matches!(c, '\u{8}' | '\t' | '\n' | '\u{c}' | '\r')) {
        return "control-short-escape";
    }
    if k.chars().any(|c| (c as u32) < 0x20) {
        return "control-u-escape";
    }
    if k.contains('\u{7f}') {
        return "DEL";
    }
    if k.contains('/') {
        return "slash";
    }
    if k.contains('~') {
        return "tilde";
    }
    if k.chars().any(|c| c.is_whitespace() && (c as u32) >= 0x80) {
        return "unicode-white-space";
    }
    if k.chars().any(|c| (c as u32) > 0xffff) {
        return "non-BMP";
    }
    if k.chars().any(|c| (c as u32) >= 0x80) {
        return "BMP-non-ASCII";
    }
    if k.chars().all(|c| c.is_ascii_digit() || c == '-') {
        return "digits";
    }
    if k.contains(' ') {
        return "blank";
    }
    if k.chars().all(|c| c.is_ascii_alphanumeric() || c == '_') {
        return "plain";
    }
    "ascii-punct"
}

/// documents that nest every hostile name two levels deep with arrays in between
fn docs() -> Vec<J> {
    let hk = gen::hostile_keys();
    let leaf = |n: i64| J::Obj(vec![("z".into(), J::int(n)), ("y".into(), J::Arr(vec![J::int(n), J::str("s")]))]);
    let mut out = vec![];
    // shape 1: name at level 1
    out.push(J::Obj(hk.iter().enumerate().map(|(i, k)| (k.clone(), leaf(i as i64))).collect()));
    // shape 2: name under an array under a name
    out.push(J::Obj(vec![("arr".into(), J::Arr(vec![J::int(0), J::Obj(hk.iter().enumerate().map(|(i, k)| (k.clone(), J::Arr(vec![J::int(i as i64), leaf(1)]))).collect()), J::Arr(vec![])]))]));
    // shape 3: name under itself (same hostile name twice on the path), chunks of 8 names
    for chunk in hk.chunks(8) {
        out.push(J::Arr(vec![J::Obj(chunk.iter().map(|k| (k.clone(), J::Obj(vec![(k.clone(), J::Arr(vec![J::Null, J::Bool(true), J::str(k)]))]))).collect())]));
    }
    // arrays for index / slice routes
    out.push(J::Arr((0..7).map(|i| J::Arr(vec![J::int(i), J::Arr(vec![J::int(i * 10), J::int(i * 10 + 1)])])).collect()));
    out
}

struct Route {
    kind: &'static str,
    query: Query,
    spelling: Spelling,
}

fn sp(names: NameStyle, esc: EscStyle) -> Spelling {
    let mut s = Spelling::canonical();
    s.names = names;
    s.esc = esc;
    s
}

fn routes_for(doc: &J, rng: &mut Rng) -> Vec<Route> {
    let mut out: Vec<Route> = vec![];
    let q = |segs: Vec<Segment>| Query::root(segs);
    let flt_true = || Selector::Filter(Or::single(Basic::Test { not: false, test: TestExpr::Query(Query::current(vec![])) }));
    let generic: Vec<(&'static str, Query)> = vec![
        ("wildcard", q(vec![Segment::child(Selector::Wildcard)])),
        ("wildcard", q(vec![Segment::child(Selector::Wildcard), Segment::child(Selector::Wildcard)])),
        ("descendant", q(vec![Segment::desc(Selector::Wildcard)])),
        ("descendant", q(vec![Segment::desc(Selector::Name("z".into()))])),
        ("descendant", q(vec![Segment::desc(Selector::Index(-1))])),
        ("descendant", q(vec![Segment::desc(Selector::Slice(None, None, Some(-1)))])),
        ("filter", q(vec![Segment::child(flt_true())])),
        ("filter", q(vec![Segment::desc(flt_true())])),
        ("filter", q(vec![Segment::child(Selector::Wildcard), Segment::child(Selector::Filter(gen::test_query(Query::current(vec![gen::name_seg("z")]))))])),
        ("neg-index", q(vec![Segment::child(Selector::Wildcard), Segment::child(Selector::Index(-1))])),
        ("neg-index", q(vec![Segment::child(Selector::Index(-2)), Segment::child(Selector::Index(-1)), Segment::child(Selector::Index(-2))])),
        ("slice", q(vec![Segment::child(Selector::Slice(Some(-3), None, None)), Segment::child(Selector::Slice(None, None, Some(-1)))])),
        ("slice", q(vec![Segment::child(Selector::Slice(Some(5), Some(0), Some(-2))), Segment::child(Selector::Index(1)), Segment::child(Selector::Slice(None, Some(1), None))])),
        ("union", q(vec![Segment::children(vec![Selector::Index(0), Selector::Wildcard, Selector::Index(-1)])])),
        ("union", q(vec![Segment::child(Selector::Wildcard), Segment::children(vec![Selector::Name("z".into()), Selector::Wildcard])])),
    ];
    for (kind, query) in generic {
        out.push(Route { kind, query, spelling: Spelling::canonical() });
    }
    // name routes to every member at depth 1 and 2 of this document, in every spelling
    let mut named: Vec<Vec<Step>> = vec![];
    for l in doc.all_locs() {
        if !l.is_empty() && l.len() <= 4 && matches!(l.last(), Some(Step::Key(_))) {
            named.push(l);
        }
    }
    for l in named {
        let segs: Vec<Segment> = l
            .iter()
            .map(|s| match s {
                Step::Key(k) => Segment::child(Selector::Name(k.clone())),
                Step::Idx(i) => Segment::child(Selector::Index(*i as i64)),
            })
            .collect();
        let query = Query::root(segs);
        out.push(Route { kind: "name-single-quoted", query: query.clone(), spelling: sp(NameStyle::Single, EscStyle::Minimal) });
        out.push(Route { kind: "name-double-quoted", query: query.clone(), spelling: sp(NameStyle::Double, EscStyle::Minimal) });
        out.push(Route { kind: "name-shorthand", query: query.clone(), spelling: sp(NameStyle::Shorthand, EscStyle::Minimal) });
        let mut r = sp(NameStyle::Random, EscStyle::Random);
        r.rng = Some(Rng(rng.next()));
        out.push(Route { kind: "name-escaped-spelling", query: query.clone(), spelling: r });
        // the same name reached after a negative index / under a descendant
        let mut q2 = query.clone();
        q2.segments.push(Segment::desc(Selector::Index(-1)));
        out.push(Route { kind: "name-then-descendant", query: q2, spelling: sp(NameStyle::Single, EscStyle::Minimal) });
    }
    out
}

pub fn run(ctx: &Ctx) -> Result<Evidence, String> {
    let armed: Armed = arm(ctx, &|_| None)?;
    let mut rng = Rng::stream(ctx.seed, 3);
    let docs: Vec<Doc> = docs().iter().map(Doc::new).collect();
    // (doc index, route)
    let mut cases: Vec<(usize, Route)> = vec![];
    for (i, d) in docs.iter().enumerate() {
        for r in routes_for(&d.j, &mut rng) {
            cases.push((i, r));
        }
    }
    // size-boundary documents: generic routes and the boundary queries
    let bdocs: Vec<Doc> = gen::boundary_docs().iter().map(Doc::new).collect();
    let bqueries: Vec<Query> = gen::boundary_queries().iter().filter_map(|t| analyze(t).ast).collect();
    let mut bcases: Vec<(usize, Route)> = vec![];
    for (i, _) in bdocs.iter().enumerate() {
        for q in &bqueries {
            bcases.push((i, Route { kind: "size-boundary", query: q.clone(), spelling: Spelling::canonical() }));
        }
    }
    let mut bdocs = bdocs;
    let first_huge = bdocs.len();
    bdocs.extend(gen::huge_docs().iter().map(Doc::new));
    for q in gen::huge_queries() {
        if let Some(ast) = analyze(q).ast {
            for i in first_huge..bdocs.len() {
                // several copies: the cases run concurrently on all worker threads
                for _ in 0..3 {
                    bcases.push((i, Route { kind: "huge", query: ast.clone(), spelling: Spelling::canonical() }));
                }
            }
        }
    }
    // names needing escapes rendered concurrently: a few hot names (repeated) while other
    // threads churn through hundreds of distinct ones
    {
        let hot = J::Obj((0..5).map(|i| (format!("hot'{}\\", i), J::Arr(vec![J::int(i), J::Obj(vec![(format!("in'{}", i), J::int(i))])]))).collect());
        let hot_i = bdocs.len();
        bdocs.push(Doc::new(&hot));
        let churn_i = first_huge + 2;
        for k in 0..ctx.tier.pick(600, 6000) {
            let (di, q) = if k % 2 == 0 { (hot_i, ["$.*", "$..*", "$[?@]", "$.*[1].*"][k / 2 % 4]) } else { (churn_i, ["$.*", "$.*[1].*", "$[?@[0] > 100]"][k / 2 % 3]) };
            if let Some(ast) = analyze(q).ast {
                bcases.push((di, Route { kind: "escaped-names-concurrent", query: ast, spelling: Spelling::canonical() }));
            }
        }
    }
    // long member names drawn from a hostile alphabet (every adjacency of quotes, backslashes,
    // controls, brackets and multi-byte characters, at every offset, 1..90 characters) reached by
    // wildcard, descendant and filter steps
    {
        let alphabet: Vec<char> = "][\\'\"/~ .a0\u{e9}\u{1f600}\t\n\u{1}\u{1f}\u{7f}\u{0}$@*-_%x".chars().collect();
        for _ in 0..ctx.tier.pick(80, 2500) {
            let mut members: Vec<(String, J)> = vec![];
            for k in 0..24 {
                let len = 1 + rng.below(if k % 4 == 0 { 90 } else { 40 }) as usize;
                let name: String = (0..len).map(|_| *rng.pick(&alphabet)).collect();
                if members.iter().any(|(n, _)| *n == name) {
                    continue;
                }
                let inner_len = 20 + rng.below(50) as usize;
                let inner: String = (0..inner_len).map(|_| *rng.pick(&alphabet)).collect();
                members.push((name, if k % 3 == 0 { J::Obj(vec![(inner, J::int(k))]) } else { J::Arr(vec![J::int(k), J::Null]) }));
            }
            // dense in control characters, short (rendering several times longer than the name)
            for n in [9usize, 11, 16, 24] {
                let name: String = (0..n).map(|i| ['\u{1}', '\u{b}', '\u{1f}', '\u{0}', '\u{e}'][(i + n) % 5]).collect();
                if !members.iter().any(|(m, _)| *m == name) {
                    members.push((name, J::int(n as i64)));
                }
            }
            let di = bdocs.len();
            bdocs.push(Doc::new(&J::Obj(members)));
            for q in ["$.*", "$..*", "$[?@]", "$.*.*", "$..[0]"] {
                if let Some(ast) = analyze(q).ast {
                    bcases.push((di, Route { kind: "long-hostile-names", query: ast, spelling: Spelling::canonical() }));
                }
            }
        }
    }
    // long names that are plain except for one or two special characters (100..600 bytes; a lone
    // backslash, quote, control, escape look-alike or multi-byte character at a random offset)
    {
        let names = gen::sparse_long_names(&mut rng);
        for chunk in names.chunks(16) {
            let members: Vec<(String, J)> = chunk.iter().enumerate().map(|(k, n)| (n.clone(), if k % 2 == 0 { J::Arr(vec![J::int(k as i64), J::Null]) } else { J::Obj(vec![(n.clone(), J::int(k as i64))]) })).collect();
            let di = bdocs.len();
            bdocs.push(Doc::new(&J::Obj(members)));
            for q in ["$.*", "$..*", "$[?@]", "$.*.*", "$..[0]"] {
                if let Some(ast) = analyze(q).ast {
                    bcases.push((di, Route { kind: "sparse-long-names", query: ast, spelling: Spelling::canonical() }));
                }
            }
        }
    }
    let n_bound = bcases.len();
    // random part: random queries over random documents with hostile keys
    let mut dcfg = gen::DocCfg::default();
    dcfg.keys = gen::hostile_keys().into_iter().filter(|k| k.len() < 50).collect();
    let mut qcfg = gen::QueryCfg::default();
    qcfg.names = dcfg.keys.clone();
    let n_rand_docs = ctx.tier.pick(300, 6000);
    let rdocs: Vec<Doc> = (0..n_rand_docs).map(|_| Doc::new(&gen::random_doc(&mut rng, &dcfg))).collect();
    let n_fixed = cases.len();
    let n_rand = ctx.tier.pick(150_000, 40_000_000);
    let seed = ctx.seed;

    let acc = par_run(ctx, n_fixed + n_rand + n_bound, |i, acc: &mut Acc| {
        let (doc, text, kind): (&Doc, String, &'static str);
        if i < n_fixed {
            let (di, r) = &cases[i];
            doc = &docs[*di];
            let mut s = r.spelling.clone();
            text = render(&r.query, &mut s);
            kind = r.kind;
        } else if i >= n_fixed + n_rand {
            let (di, r) = &bcases[i - n_fixed - n_rand];
            doc = &bdocs[*di];
            let mut s = r.spelling.clone();
            text = render(&r.query, &mut s);
            kind = r.kind;
        } else {
            let mut r = Rng::stream(seed, 5000 + i as u64);
            doc = &rdocs[r.below(n_rand_docs as u64) as usize];
            let q = gen::random_query(&mut r, &qcfg);
            let mut s = if r.chance(1, 2) { Spelling::canonical() } else { Spelling::random(&mut r) };
            s.filter_parens = false;
            s.extra_parens = 0;
            text = render(&q, &mut s);
            kind = "random";
        }
        let parsed = analyze(&text);
        if parsed.ast.is_none() {
            acc.count("HARNESS_render_parse_mismatch", 1);
            return;
        }
        acc.evaluations += 1;
        let j = judge_query(&text, &parsed, doc, PATHS, &armed);
        let mut verdict = j.verdict.clone();
        // oracle-free parts: bijection and round trip, on what the library itself returned
        if let (LibOutcome::Ok(nodes), Some(locs)) = (&j.lib, &j.lib_locs) {
            if matches!(verdict, Verdict::Held) {
                for a in 0..nodes.len() {
                    for b in (a + 1)..nodes.len().min(a + 40) {
                        if (nodes[a].1 == nodes[b].1) != (nodes[a].0 == nodes[b].0) {
                            verdict = Verdict::Violated(format!("two results have {} paths but are {} node: {:?} / {:?}", if nodes[a].1 == nodes[b].1 { "equal" } else { "different" }, if nodes[a].0 == nodes[b].0 { "the same" } else { "different" }, nodes[a].1, nodes[b].1));
                        }
                    }
                }
                acc.count("bijection_checked_results", nodes.len() as u64);
            }
            // round trip of up to 6 reported paths per case
            if matches!(verdict, Verdict::Held) {
                for (k, (addr, path)) in nodes.iter().enumerate().take(6) {
                    acc.count("round_trips", 1);
                    match libapi::query_with_path(path, &doc.value) {
                        LibOutcome::Ok(back) if back.len() == 1 && back[0].0 == *addr && back[0].1 == *path => {}
                        other => {
                            // explained by an armed finding about the member names on this path?
                            let loc = &locs[k];
                            let known = [(judge::loc_needs_escape(loc), "doc_key_needs_escape"), (judge::loc_quote_wrapped(loc), "doc_key_quote_wrapped")].iter().find(|(c, n)| *c && armed.has(n)).map(|(_, n)| armed.id_of(n));
                            verdict = match known {
                                Some(id) => Verdict::Known(id),
                                None => Verdict::Violated(format!("re-running the reported path {:?} does not return exactly that node with that path: {}", path, other.brief())),
                            };
                            break;
                        }
                    }
                }
            }
            for l in locs.iter().take(50) {
                for s in l {
                    if let Step::Key(k) = s {
                        acc.mark("route_x_nameclass_matrix", format!("{} x {}", kind, name_class(k)));
                    }
                }
                if l.iter().any(|s| matches!(s, Step::Idx(_))) {
                    acc.mark("route_x_nameclass_matrix", format!("{} x index-step", kind));
                }
            }
            if !nodes.is_empty() {
                acc.nontrivial(format!("{}\u{0}{}", text, doc.text()).as_bytes());
                acc.sample(json!({"route": kind, "query": text, "reported": nodes.iter().take(3).map(|n| n.1.clone()).collect::<Vec<_>>(), "normalized": locs.iter().take(3).map(|l| npath::render(l)).collect::<Vec<_>>()}));
            }
        }
        match verdict {
            Verdict::Held => acc.count("held", 1),
            Verdict::Known(id) => ctx.add_known(&id, 1),
            Verdict::Skipped(z) => ctx.add_skipped(z, 1),
            Verdict::Inconclusive(w) => ctx.add_inconclusive(&w, 1),
            Verdict::Violated(m) => ctx.violate(&m, judge::replay_json("query", &text, doc, &j)),
        }
    });
    // sustained concurrent rendering: every thread works on documents of its own in which a few
    // "hot" member names that need escaping recur in every record next to names that occur once
    // (shared tables / memos of rendered steps are hit and evicted at the same time)
    let mut acc = acc;
    {
        let threads = ctx.threads.clamp(2, 16);
        let rounds = ctx.tier.pick(120, 1500);
        let barrier = std::sync::Barrier::new(threads);
        let checked = std::sync::atomic::AtomicU64::new(0);
        std::thread::scope(|s| {
            for t in 0..threads {
                let (barrier, checked) = (&barrier, &checked);
                s.spawn(move || {
                    barrier.wait();
                    for round in 0..rounds {
                        let recs: Vec<J> = (0..40)
                            .map(|i| {
                                J::Obj(vec![
                                    ("it's".to_string(), J::int(1)),
                                    ("C:\\temp".to_string(), J::int(2)),
                                    ("tab\there".to_string(), J::Arr(vec![J::int(3)])),
                                    ("plain".to_string(), J::int(4)),
                                    (format!("w{}'r{}'i{}", t, round, i), J::int(5)),
                                ])
                            })
                            .collect();
                        let doc = Doc::new(&J::Arr(recs));
                        for q in ["$[*][*]", "$..*", "$[*][?@]"] {
                            if let LibOutcome::Ok(ns) = libapi::query_with_path(q, &doc.value) {
                                for (a, p) in &ns {
                                    let want = doc.loc_of(*a).map(|l| npath::render(l));
                                    if want.as_deref() != Some(p.as_str()) {
                                        ctx.violate(
                                            &format!("under concurrent use ({} threads, thread {} round {}): the node at {:?} is reported with the path {:?}", threads, t, round, want, p),
                                            json!({"kind":"schedule","query": q, "threads": threads, "document": serde_json::from_str::<serde_json::Value>(&doc.text()).unwrap_or_default()}),
                                        );
                                        return;
                                    }
                                }
                                checked.fetch_add(ns.len() as u64, std::sync::atomic::Ordering::Relaxed);
                            }
                        }
                    }
                });
            }
        });
        acc.count("concurrent_rendering_paths_checked", checked.load(std::sync::atomic::Ordering::Relaxed));
        acc.count("concurrent_rendering_threads", threads as u64);
    }
    if acc.counters.get("HARNESS_render_parse_mismatch").copied().unwrap_or(0) > 0 {
        return Err("renderer produced strings oracle (b) cannot parse".into());
    }
    let mut ev = Evidence::new("cases = (route to a node) x (kind of member name): every hostile member name nested in three document shapes, reached by name (single/double quoted, shorthand, random escape spellings), wildcard, descendant, filter, negative index, slice, union; plus seeded random queries over random documents with hostile keys. For every result the reported path must equal the Normalized Path rendered from the location found by address; equal paths <=> same node; each reported path re-queried must return exactly that node and path. Non-trivial = distinct (query, document) with a non-empty result.");
    ev.set("exhaustive", json!(false));
    ev.set("fixed_route_cases", json!(n_fixed));
    ev.assume("Normalized Path renderer (oracle d) follows RFC 9535 section 2.7; its output is checked against the normalized-path ABNF at start-up");
    ev.min_nontrivial = 500;
    acc.into_evidence(&mut ev);
    Ok(ev)
}
