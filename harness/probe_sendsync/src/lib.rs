//! Compile-time probe for C12: a parsed query and the error type must be shareable between
//! threads. If this crate stops compiling, sharing one parsed query across threads is impossible.
fn assert_send_sync<T: Send + Sync>() {}
pub fn probe() {
    assert_send_sync::<jsonpath_rust::parser::model::JpQuery>();
    assert_send_sync::<jsonpath_rust::parser::errors::JsonPathError>();
}
