//! Oracle (d): RFC 9535 section 2.7 Normalized Paths: renderer Location -> String and inverse.

use crate::json::{Loc, Step};
use std::fmt::Write;

pub fn render_name(k: &str, out: &mut String) {
    out.push_str("['");
    for c in k.chars() {
        match c {
            '\u{8}' => out.push_str("\\b"),
            '\t' => out.push_str("\\t"),
            '\n' => out.push_str("\\n"),
            '\u{c}' => out.push_str("\\f"),
            '\r' => out.push_str("\\r"),
            '\'' => out.push_str("\\'"),
            '\\' => out.push_str("\\\\"),
            c if (c as u32) < 0x20 => {
                let _ = write!(out, "\\u{:04x}", c as u32);
            }
            c => out.push(c),
        }
    }
    out.push_str("']");
}

pub fn render(loc: &[Step]) -> String {
    let mut out = String::from("$");
    for s in loc {
        match s {
            Step::Idx(i) => {
                let _ = write!(out, "[{}]", i);
            }
            Step::Key(k) => render_name(k, &mut out),
        }
    }
    out
}

/// Parses a Normalized Path (strictly: the normalized-path ABNF). None if not one.
pub fn parse(s: &str) -> Option<Loc> {
    let c: Vec<char> = s.chars().collect();
    if c.first() != Some(&'$') {
        return None;
    }
    let mut i = 1;
    let mut loc = vec![];
    while i < c.len() {
        if c[i] != '[' {
            return None;
        }
        i += 1;
        if i >= c.len() {
            return None;
        }
        if c[i] == '\'' {
            i += 1;
            let mut k = String::new();
            loop {
                let ch = *c.get(i)?;
                if ch == '\'' {
                    i += 1;
                    break;
                }
                if ch == '\\' {
                    let e = *c.get(i + 1)?;
                    i += 2;
                    match e {
                        'b' => k.push('\u{8}'),
                        't' => k.push('\t'),
                        'n' => k.push('\n'),
                        'f' => k.push('\u{c}'),
                        'r' => k.push('\r'),
                        '\'' => k.push('\''),
                        '\\' => k.push('\\'),
                        'u' => {
                            let h: String = c.get(i..i + 4)?.iter().collect();
                            if h.chars().any(|x| x.is_ascii_uppercase()) {
                                return None;
                            }
                            let v = u32::from_str_radix(&h, 16).ok()?;
                            // only controls without a short form
                            if v >= 0x20 || [8, 9, 10, 12, 13].contains(&v) {
                                return None;
                            }
                            k.push(char::from_u32(v)?);
                            i += 4;
                        }
                        _ => return None,
                    }
                    continue;
                }
                if (ch as u32) < 0x20 {
                    return None;
                }
                k.push(ch);
                i += 1;
            }
            loc.push(Step::Key(k));
        } else {
            let st = i;
            while i < c.len() && c[i].is_ascii_digit() {
                i += 1;
            }
            let d: String = c[st..i].iter().collect();
            if d.is_empty() || (d.len() > 1 && d.starts_with('0')) {
                return None;
            }
            loc.push(Step::Idx(d.parse().ok()?));
        }
        if c.get(i) != Some(&']') {
            return None;
        }
        i += 1;
    }
    Some(loc)
}

#[cfg(test)]
mod tests {
    use super::*;
    #[test]
    fn roundtrip() {
        let loc = vec![Step::Key("a'b\\\u{b}\n".into()), Step::Idx(3), Step::Key("".into()), Step::Key("\"x\"".into())];
        let p = render(&loc);
        assert_eq!(p, "$['a\\'b\\\\\\u000b\\n'][3]['']['\"x\"']");
        assert_eq!(parse(&p), Some(loc));
        assert_eq!(parse("$[01]"), None);
        assert_eq!(parse("$[\"a\"]"), None);
        assert_eq!(parse("$['\\u000B']"), None);
    }
}
