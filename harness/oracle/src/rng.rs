//! SplitMix64: every random choice of the harness comes from a stream seeded from VERIF_SEED.

#[derive(Debug, Clone)]
pub struct Rng(pub u64);

impl Rng {
    pub fn new(seed: u64) -> Rng {
        Rng(seed ^ 0x9E37_79B9_7F4A_7C15)
    }
    /// independent stream for (seed, stream id)
    pub fn stream(seed: u64, id: u64) -> Rng {
        let mut r = Rng(seed.wrapping_mul(0xD129_0D3B_3F2A_5C17) ^ id.wrapping_mul(0x9E37_79B9_7F4A_7C15) ^ 0x1234_5678_9ABC_DEF0);
        r.next();
        r.next();
        r
    }
    pub fn next(&mut self) -> u64 {
        self.0 = self.0.wrapping_add(0x9E37_79B9_7F4A_7C15);
        let mut z = self.0;
        z = (z ^ (z >> 30)).wrapping_mul(0xBF58_476D_1CE4_E5B9);
        z = (z ^ (z >> 27)).wrapping_mul(0x94D0_49BB_1331_11EB);
        z ^ (z >> 31)
    }
    pub fn below(&mut self, n: u64) -> u64 {
        if n == 0 {
            0
        } else {
            self.next() % n
        }
    }
    pub fn range(&mut self, lo: i64, hi: i64) -> i64 {
        lo + self.below((hi - lo + 1) as u64) as i64
    }
    pub fn chance(&mut self, num: u64, den: u64) -> bool {
        self.below(den) < num
    }
    pub fn pick<'a, T>(&mut self, v: &'a [T]) -> &'a T {
        &v[self.below(v.len() as u64) as usize]
    }
    pub fn shuffle<T>(&mut self, v: &mut [T]) {
        for i in (1..v.len()).rev() {
            let j = self.below(i as u64 + 1) as usize;
            v.swap(i, j);
        }
    }
}

pub fn fnv(s: &[u8]) -> u64 {
    let mut h: u64 = 0xcbf29ce484222325;
    for b in s {
        h ^= *b as u64;
        h = h.wrapping_mul(0x100000001b3);
    }
    h
}
