//! Oracle self-tests: the published example tables of RFC 9535 (DESIGN Appendix E) must be
//! reproduced by oracles (a)-(e) before any check may run; plus the (a) <-> (b) cross-check.

use crate::abnf::{rfc9535, Deriver, Grammar};
use crate::eval::{eval_locs, Dev};
use crate::json::J;
use crate::npath;
use crate::parse::{analyze, Class, Reason};
use crate::rng::Rng;

pub struct Recognisers {
    pub strict: Grammar,
    pub u1: Grammar,
}

impl Recognisers {
    pub fn new() -> Recognisers {
        Recognisers { strict: rfc9535(false), u1: rfc9535(true) }
    }
    /// (a) and (b) must agree on syntax. Err = oracle defect (never reported against the library).
    pub fn cross_check(&self, s: &str) -> Result<(), String> {
        let chars: Vec<char> = s.chars().collect();
        if chars.len() > 400 {
            return Ok(());
        }
        let p = crate::parse::analyze_chars(&chars);
        let (bs, bu) = match (p.syntax_ok_strict, p.syntax_ok_u1) {
            (Some(a), Some(b)) => (a, b),
            _ => return Ok(()),
        };
        let as_ = self.strict.matches("jsonpath-query", &chars);
        let au = self.u1.matches("jsonpath-query", &chars);
        if as_ != bs || au != bu {
            return Err(format!("recognisers disagree on {:?}: abnf strict={} u1={} ; hand strict={} u1={} ({:?})", s, as_, au, bs, bu, p.class));
        }
        Ok(())
    }
}

fn doc(s: &str) -> J {
    J::from_value(&serde_json::from_str::<serde_json::Value>(s).expect("selftest json"))
}

fn paths(q: &str, d: &J) -> Result<Vec<String>, String> {
    let p = analyze(q);
    let ast = p.ast.ok_or_else(|| format!("selftest query does not parse: {} {:?}", q, p.class))?;
    if p.class != Class::Valid {
        return Err(format!("selftest query not Valid: {} {:?}", q, p.class));
    }
    let (locs, _, _) = eval_locs(&ast, d, Dev::default()).map_err(|_| "budget".to_string())?;
    Ok(locs.iter().map(|l| npath::render(l)).collect())
}

fn expect(q: &str, d: &J, want: &[&str], n: &mut usize) -> Result<(), String> {
    let got = paths(q, d)?;
    let want: Vec<String> = want.iter().map(|s| s.to_string()).collect();
    *n += 1;
    if got != want {
        return Err(format!("selftest {}: got {:?} want {:?}", q, got, want));
    }
    Ok(())
}

fn expect_count(q: &str, d: &J, want: usize, n: &mut usize) -> Result<(), String> {
    let got = paths(q, d)?;
    *n += 1;
    if got.len() != want {
        return Err(format!("selftest {}: got {} nodes want {}", q, got.len(), want));
    }
    Ok(())
}

pub fn run() -> Result<usize, String> {
    let mut n = 0usize;
    // 1.5 bookstore (object members here in serde_json's sorted order; order-sensitive rows are
    // stated for that order)
    let store = doc(
        r#"{ "store": { "book": [
        { "category": "reference", "author": "Nigel Rees", "title": "Sayings of the Century", "price": 8.95 },
        { "category": "fiction", "author": "Evelyn Waugh", "title": "Sword of Honour", "price": 12.99 },
        { "category": "fiction", "author": "Herman Melville", "title": "Moby Dick", "isbn": "0-553-21311-3", "price": 8.99 },
        { "category": "fiction", "author": "J. R. R. Tolkien", "title": "The Lord of the Rings", "isbn": "0-395-19395-8", "price": 22.99 } ],
        "bicycle": { "color": "red", "price": 399 } } }"#,
    );
    expect(
        "$.store.book[*].author",
        &store,
        &["$['store']['book'][0]['author']", "$['store']['book'][1]['author']", "$['store']['book'][2]['author']", "$['store']['book'][3]['author']"],
        &mut n,
    )?;
    expect(
        "$..author",
        &store,
        &["$['store']['book'][0]['author']", "$['store']['book'][1]['author']", "$['store']['book'][2]['author']", "$['store']['book'][3]['author']"],
        &mut n,
    )?;
    expect("$.store.*", &store, &["$['store']['bicycle']", "$['store']['book']"], &mut n)?;
    expect_count("$.store..price", &store, 5, &mut n)?;
    expect("$..book[2]", &store, &["$['store']['book'][2]"], &mut n)?;
    expect("$..book[2].author", &store, &["$['store']['book'][2]['author']"], &mut n)?;
    expect("$..book[2].publisher", &store, &[], &mut n)?;
    expect("$..book[-1]", &store, &["$['store']['book'][3]"], &mut n)?;
    expect("$..book[0,1]", &store, &["$['store']['book'][0]", "$['store']['book'][1]"], &mut n)?;
    expect("$..book[:2]", &store, &["$['store']['book'][0]", "$['store']['book'][1]"], &mut n)?;
    expect("$..book[?@.isbn]", &store, &["$['store']['book'][2]", "$['store']['book'][3]"], &mut n)?;
    expect("$..book[?@.price<10]", &store, &["$['store']['book'][0]", "$['store']['book'][2]"], &mut n)?;
    expect_count("$..*", &store, 27, &mut n)?;

    // 2.3.1.3
    let d = doc(r#"{"o": {"j j": {"k.k": 3}}, "'": {"@": 2}}"#);
    expect("$.o['j j']", &d, &["$['o']['j j']"], &mut n)?;
    expect("$.o['j j']['k.k']", &d, &["$['o']['j j']['k.k']"], &mut n)?;
    expect("$.o[\"j j\"][\"k.k\"]", &d, &["$['o']['j j']['k.k']"], &mut n)?;
    expect("$[\"'\"][\"@\"]", &d, &["$['\\'']['@']"], &mut n)?;

    // 2.3.2.3 (member order = sorted)
    let d = doc(r#"{"o": {"j": 1, "k": 2}, "a": [5, 3]}"#);
    expect("$[*]", &d, &["$['a']", "$['o']"], &mut n)?;
    expect("$.o[*]", &d, &["$['o']['j']", "$['o']['k']"], &mut n)?;
    expect("$.o[*, *]", &d, &["$['o']['j']", "$['o']['k']", "$['o']['j']", "$['o']['k']"], &mut n)?;
    expect("$.a[*]", &d, &["$['a'][0]", "$['a'][1]"], &mut n)?;

    // 2.3.3.3
    let d = doc(r#"["a","b"]"#);
    expect("$[1]", &d, &["$[1]"], &mut n)?;
    expect("$[-2]", &d, &["$[0]"], &mut n)?;

    // 2.3.4.3
    let d = doc(r#"["a","b","c","d","e","f","g"]"#);
    expect("$[1:3]", &d, &["$[1]", "$[2]"], &mut n)?;
    expect("$[5:]", &d, &["$[5]", "$[6]"], &mut n)?;
    expect("$[1:5:2]", &d, &["$[1]", "$[3]"], &mut n)?;
    expect("$[5:1:-2]", &d, &["$[5]", "$[3]"], &mut n)?;
    expect("$[::-1]", &d, &["$[6]", "$[5]", "$[4]", "$[3]", "$[2]", "$[1]", "$[0]"], &mut n)?;
    // 2.5.1.3
    expect("$[0, 3]", &d, &["$[0]", "$[3]"], &mut n)?;
    expect("$[0:2, 5]", &d, &["$[0]", "$[1]", "$[5]"], &mut n)?;
    expect("$[0, 0]", &d, &["$[0]", "$[0]"], &mut n)?;

    // 2.3.5.3 comparisons: evaluate `$[?<cmp>]` over a one-element carrier so that truth = 1 node
    let d = doc(r#"{"obj": {"x": "y"}, "arr": [2, 3]}"#);
    let carrier = |cmp: &str| format!("$[?{}]", cmp);
    for (c, want) in [
        ("$.absent1 == $.absent2", true),
        ("$.absent1 <= $.absent2", true),
        ("$.absent == 'g'", false),
        ("$.absent1 != $.absent2", false),
        ("$.absent != 'g'", true),
        ("1 <= 2", true),
        ("1 > 2", false),
        ("13 == '13'", false),
        ("'a' <= 'b'", true),
        ("'a' > 'b'", false),
        ("$.obj == $.arr", false),
        ("$.obj != $.arr", true),
        ("$.obj == $.obj", true),
        ("$.obj != $.obj", false),
        ("$.arr == $.arr", true),
        ("$.arr != $.arr", false),
        ("$.obj == 17", false),
        ("$.obj != 17", true),
        ("$.obj <= $.arr", false),
        ("$.obj < $.arr", false),
        ("$.obj <= $.obj", true),
        ("$.arr <= $.arr", true),
        ("1 <= $.arr", false),
        ("1 >= $.arr", false),
        ("1 > $.arr", false),
        ("1 < $.arr", false),
        ("true <= true", true),
        ("true > true", false),
    ] {
        // both members of d are children; a constant comparison keeps both or none
        expect_count(&carrier(c), &d, if want { 2 } else { 0 }, &mut n)?;
    }

    // 2.3.5.3 filters
    let d = doc(
        r#"{"a": [3,5,1,2,4,6,{"b":"j"},{"b":"k"},{"b":{}},{"b":"kilo"}], "o": {"p":1,"q":2,"r":3,"s":5,"t":{"u":6}}, "e": "f"}"#,
    );
    expect("$.a[?@.b == 'kilo']", &d, &["$['a'][9]"], &mut n)?;
    expect("$.a[?(@.b == 'kilo')]", &d, &["$['a'][9]"], &mut n)?;
    expect("$.a[?@>3.5]", &d, &["$['a'][1]", "$['a'][4]", "$['a'][5]"], &mut n)?;
    expect("$.a[?@.b]", &d, &["$['a'][6]", "$['a'][7]", "$['a'][8]", "$['a'][9]"], &mut n)?;
    expect("$[?@.*]", &d, &["$['a']", "$['o']"], &mut n)?;
    expect("$[?@[?@.b]]", &d, &["$['a']"], &mut n)?;
    expect("$.o[?@<3, ?@<3]", &d, &["$['o']['p']", "$['o']['q']", "$['o']['p']", "$['o']['q']"], &mut n)?;
    expect("$.a[?@<2 || @.b == \"k\"]", &d, &["$['a'][2]", "$['a'][7]"], &mut n)?;
    expect("$.a[?match(@.b, \"[jk]\")]", &d, &["$['a'][6]", "$['a'][7]"], &mut n)?;
    expect("$.a[?search(@.b, \"[jk]\")]", &d, &["$['a'][6]", "$['a'][7]", "$['a'][9]"], &mut n)?;
    expect("$.o[?@>1 && @<4]", &d, &["$['o']['q']", "$['o']['r']"], &mut n)?;
    expect("$.o[?@.u || @.x]", &d, &["$['o']['t']"], &mut n)?;
    expect("$.a[?@.b == $.x]", &d, &["$['a'][0]", "$['a'][1]", "$['a'][2]", "$['a'][3]", "$['a'][4]", "$['a'][5]"], &mut n)?;
    expect_count("$.a[?@ == @]", &d, 10, &mut n)?;

    // 2.4.3 well-typedness
    for (q, valid) in [
        ("$[?length(@) < 3]", true),
        ("$[?count(@.*) == 1]", true),
        ("$[?match(@.timezone, 'Europe/.*')]", true),
        ("$[?value(@..color) == \"red\"]", true),
        ("$[?length(@.*) < 3]", false),
        ("$[?count(1) == 1]", false),
        ("$[?match(@.timezone, 'Europe/.*') == true]", false),
        ("$[?value(@..color)]", false),
    ] {
        let c = analyze(q).class;
        n += 1;
        if valid != (c == Class::Valid) || (!valid && !matches!(c, Class::Invalid(r) if !r.is_syntax() || r == Reason::Syntax)) {
            return Err(format!("selftest typing {}: {:?}", q, c));
        }
    }

    // 2.5.2.3 (sorted member order: "a" before "o")
    let d = doc(r#"{"o": {"j": 1, "k": 2}, "a": [5, 3, [{"j": 4}, {"k": 6}]]}"#);
    expect("$..j", &d, &["$['a'][2][0]['j']", "$['o']['j']"], &mut n)?;
    expect("$..[0]", &d, &["$['a'][0]", "$['a'][2][0]"], &mut n)?;
    expect_count("$..*", &d, 11, &mut n)?;
    expect_count("$..[*]", &d, 11, &mut n)?;
    expect("$..o", &d, &["$['o']"], &mut n)?;
    expect("$.o..[*, *]", &d, &["$['o']['j']", "$['o']['k']", "$['o']['j']", "$['o']['k']"], &mut n)?;
    expect("$.a..[0, 1]", &d, &["$['a'][0]", "$['a'][1]", "$['a'][2][0]", "$['a'][2][1]"], &mut n)?;

    // 2.6
    let d = doc(r#"{"a": null, "b": [null], "c": [{}], "null": 1}"#);
    expect("$.a", &d, &["$['a']"], &mut n)?;
    expect("$.a[0]", &d, &[], &mut n)?;
    expect("$.a.d", &d, &[], &mut n)?;
    expect("$.b[0]", &d, &["$['b'][0]"], &mut n)?;
    expect("$.b[*]", &d, &["$['b'][0]"], &mut n)?;
    expect("$.b[?@]", &d, &["$['b'][0]"], &mut n)?;
    expect("$.b[?@==null]", &d, &["$['b'][0]"], &mut n)?;
    expect("$.c[?@.d==null]", &d, &[], &mut n)?;
    expect("$.null", &d, &["$['null']"], &mut n)?;

    // 2.7
    let d = doc(r#"{"a": {"b": [0, 1, 2]}, "\u000b": 1}"#);
    expect("$.a", &d, &["$['a']"], &mut n)?;
    expect("$.a.b[1:2]", &d, &["$['a']['b'][1]"], &mut n)?;
    expect("$[\"\\u000B\"]", &d, &["$['\\u000b']"], &mut n)?;
    expect("$[\"a\"]", &d, &["$['a']"], &mut n)?;
    let d5 = doc("[0,1,2,3,4]");
    expect("$[-3]", &d5, &["$[2]"], &mut n)?;

    // recogniser cross-check on ABNF-derived sentences and their mutants
    let rec = Recognisers::new();
    let der = Deriver { g: &rec.strict, max_depth: 10, rep_pm: 350, s_pm: 150 };
    let mut rng = Rng::new(12345);
    for _ in 0..400 {
        let s = der.derive("jsonpath-query", &mut rng);
        if s.chars().count() > 200 {
            continue;
        }
        let chars: Vec<char> = s.chars().collect();
        if !rec.strict.matches("jsonpath-query", &chars) {
            return Err(format!("derived sentence not matched by its own grammar: {:?}", s));
        }
        rec.cross_check(&s)?;
        let m = crate::gen::mutate(&s, &mut rng);
        rec.cross_check(&m)?;
        n += 2;
    }
    // normalized paths produced by (d) are in the normalized-path language of (a)
    for k in crate::gen::hostile_keys() {
        let p = npath::render(&[crate::json::Step::Key(k.clone()), crate::json::Step::Idx(3)]);
        let chars: Vec<char> = p.chars().collect();
        if !rec.strict.matches("normalized-path", &chars) {
            return Err(format!("rendered path not a normalized-path: {:?}", p));
        }
        if npath::parse(&p) != Some(vec![crate::json::Step::Key(k), crate::json::Step::Idx(3)]) {
            return Err(format!("normalized path does not round-trip: {:?}", p));
        }
        n += 1;
    }
    Ok(n)
}

#[cfg(test)]
mod tests {
    #[test]
    fn selftest_passes() {
        let n = super::run().expect("selftest");
        assert!(n > 100);
    }
    #[test]
    fn cross_check_bulk() {
        let rec = super::Recognisers::new();
        let der = crate::abnf::Deriver { g: &rec.strict, max_depth: 12, rep_pm: 400, s_pm: 200 };
        let mut rng = crate::rng::Rng::new(99);
        let mut valid = 0;
        for _ in 0..3000 {
            let s = der.derive("jsonpath-query", &mut rng);
            if s.chars().count() > 150 {
                continue;
            }
            rec.cross_check(&s).unwrap();
            if crate::parse::analyze(&s).class == crate::parse::Class::Valid {
                valid += 1;
            }
            for _ in 0..3 {
                let m = crate::gen::mutate(&s, &mut rng);
                rec.cross_check(&m).unwrap();
            }
        }
        assert!(valid > 100, "too few valid derivations: {}", valid);
    }
}
