//! Oracle (a): RFC 9535 Appendix A transcribed as a data table, with a generic set-matcher
//! (for every (rule, start) the set of end positions) and ABNF-driven sentence derivation.
//! ABNF semantics (RFC 5234/7405): quoted literals are case-insensitive, %x terminals are not.

use crate::rng::Rng;
use std::collections::HashMap;

#[derive(Debug, Clone)]
pub enum E {
    /// quoted literal: case-insensitive
    Lit(&'static str),
    /// %x terminal sequence: case-sensitive
    Cs(&'static str),
    Range(u32, u32),
    Seq(Vec<E>),
    Alt(Vec<E>),
    Rep(usize, Option<usize>, Box<E>),
    Ref(&'static str),
}

fn seq(v: Vec<E>) -> E {
    E::Seq(v)
}
fn alt(v: Vec<E>) -> E {
    E::Alt(v)
}
fn opt(e: E) -> E {
    E::Rep(0, Some(1), Box::new(e))
}
fn star(e: E) -> E {
    E::Rep(0, None, Box::new(e))
}
fn plus(e: E) -> E {
    E::Rep(1, None, Box::new(e))
}
fn rep(n: usize, e: E) -> E {
    E::Rep(n, Some(n), Box::new(e))
}
fn r(n: &'static str) -> E {
    E::Ref(n)
}
fn lit(s: &'static str) -> E {
    E::Lit(s)
}
fn cs(s: &'static str) -> E {
    E::Cs(s)
}
fn rg(a: u32, b: u32) -> E {
    E::Range(a, b)
}

pub struct Grammar {
    pub rules: Vec<(&'static str, E)>,
    index: HashMap<&'static str, usize>,
    /// minimal derivation length in characters per rule (for bounded derivation)
    min_len: Vec<usize>,
}

/// The table. `u1_variant` = name-segment / index-segment with S inside the brackets (zone U1).
pub fn rfc9535(u1_variant: bool) -> Grammar {
    let name_segment = if u1_variant {
        alt(vec![seq(vec![lit("["), r("S"), r("name-selector"), r("S"), lit("]")]), seq(vec![lit("."), r("member-name-shorthand")])])
    } else {
        alt(vec![seq(vec![lit("["), r("name-selector"), lit("]")]), seq(vec![lit("."), r("member-name-shorthand")])])
    };
    let index_segment = if u1_variant {
        seq(vec![lit("["), r("S"), r("index-selector"), r("S"), lit("]")])
    } else {
        seq(vec![lit("["), r("index-selector"), lit("]")])
    };
    let rules: Vec<(&'static str, E)> = vec![
        ("jsonpath-query", seq(vec![r("root-identifier"), r("segments")])),
        ("segments", star(seq(vec![r("S"), r("segment")]))),
        ("B", alt(vec![rg(0x20, 0x20), rg(0x09, 0x09), rg(0x0A, 0x0A), rg(0x0D, 0x0D)])),
        ("S", star(r("B"))),
        ("root-identifier", lit("$")),
        ("selector", alt(vec![r("name-selector"), r("wildcard-selector"), r("slice-selector"), r("index-selector"), r("filter-selector")])),
        ("name-selector", r("string-literal")),
        (
            "string-literal",
            alt(vec![
                seq(vec![rg(0x22, 0x22), star(r("double-quoted")), rg(0x22, 0x22)]),
                seq(vec![rg(0x27, 0x27), star(r("single-quoted")), rg(0x27, 0x27)]),
            ]),
        ),
        ("double-quoted", alt(vec![r("unescaped"), rg(0x27, 0x27), seq(vec![r("ESC"), rg(0x22, 0x22)]), seq(vec![r("ESC"), r("escapable")])])),
        ("single-quoted", alt(vec![r("unescaped"), rg(0x22, 0x22), seq(vec![r("ESC"), rg(0x27, 0x27)]), seq(vec![r("ESC"), r("escapable")])])),
        ("ESC", rg(0x5C, 0x5C)),
        ("unescaped", alt(vec![rg(0x20, 0x21), rg(0x23, 0x26), rg(0x28, 0x5B), rg(0x5D, 0xD7FF), rg(0xE000, 0x10FFFF)])),
        (
            "escapable",
            alt(vec![rg(0x62, 0x62), rg(0x66, 0x66), rg(0x6E, 0x6E), rg(0x72, 0x72), rg(0x74, 0x74), lit("/"), lit("\\"), seq(vec![rg(0x75, 0x75), r("hexchar")])]),
        ),
        ("hexchar", alt(vec![r("non-surrogate"), seq(vec![r("high-surrogate"), lit("\\"), rg(0x75, 0x75), r("low-surrogate")])])),
        (
            "non-surrogate",
            alt(vec![
                seq(vec![alt(vec![r("DIGIT"), lit("A"), lit("B"), lit("C"), lit("E"), lit("F")]), rep(3, r("HEXDIG"))]),
                seq(vec![lit("D"), rg(0x30, 0x37), rep(2, r("HEXDIG"))]),
            ]),
        ),
        ("high-surrogate", seq(vec![lit("D"), alt(vec![lit("8"), lit("9"), lit("A"), lit("B")]), rep(2, r("HEXDIG"))])),
        ("low-surrogate", seq(vec![lit("D"), alt(vec![lit("C"), lit("D"), lit("E"), lit("F")]), rep(2, r("HEXDIG"))])),
        ("HEXDIG", alt(vec![r("DIGIT"), lit("A"), lit("B"), lit("C"), lit("D"), lit("E"), lit("F")])),
        ("wildcard-selector", lit("*")),
        ("index-selector", r("int")),
        ("int", alt(vec![lit("0"), seq(vec![opt(lit("-")), r("DIGIT1"), star(r("DIGIT"))])])),
        ("DIGIT1", rg(0x31, 0x39)),
        (
            "slice-selector",
            seq(vec![
                opt(seq(vec![r("start"), r("S")])),
                lit(":"),
                r("S"),
                opt(seq(vec![r("end"), r("S")])),
                opt(seq(vec![lit(":"), opt(seq(vec![r("S"), r("step")]))])),
            ]),
        ),
        ("start", r("int")),
        ("end", r("int")),
        ("step", r("int")),
        ("filter-selector", seq(vec![lit("?"), r("S"), r("logical-expr")])),
        ("logical-expr", r("logical-or-expr")),
        ("logical-or-expr", seq(vec![r("logical-and-expr"), star(seq(vec![r("S"), lit("||"), r("S"), r("logical-and-expr")]))])),
        ("logical-and-expr", seq(vec![r("basic-expr"), star(seq(vec![r("S"), lit("&&"), r("S"), r("basic-expr")]))])),
        ("basic-expr", alt(vec![r("paren-expr"), r("comparison-expr"), r("test-expr")])),
        ("paren-expr", seq(vec![opt(seq(vec![r("logical-not-op"), r("S")])), lit("("), r("S"), r("logical-expr"), r("S"), lit(")")])),
        ("logical-not-op", lit("!")),
        ("test-expr", seq(vec![opt(seq(vec![r("logical-not-op"), r("S")])), alt(vec![r("filter-query"), r("function-expr")])])),
        ("filter-query", alt(vec![r("rel-query"), r("jsonpath-query")])),
        ("rel-query", seq(vec![r("current-node-identifier"), r("segments")])),
        ("current-node-identifier", lit("@")),
        ("comparison-expr", seq(vec![r("comparable"), r("S"), r("comparison-op"), r("S"), r("comparable")])),
        ("literal", alt(vec![r("number"), r("string-literal"), r("true"), r("false"), r("null")])),
        ("comparable", alt(vec![r("literal"), r("singular-query"), r("function-expr")])),
        ("comparison-op", alt(vec![lit("=="), lit("!="), lit("<="), lit(">="), lit("<"), lit(">")])),
        ("singular-query", alt(vec![r("rel-singular-query"), r("abs-singular-query")])),
        ("rel-singular-query", seq(vec![r("current-node-identifier"), r("singular-query-segments")])),
        ("abs-singular-query", seq(vec![r("root-identifier"), r("singular-query-segments")])),
        ("singular-query-segments", star(seq(vec![r("S"), alt(vec![r("name-segment"), r("index-segment")])]))),
        ("name-segment", name_segment),
        ("index-segment", index_segment),
        ("number", seq(vec![alt(vec![r("int"), lit("-0")]), opt(r("frac")), opt(r("exp"))])),
        ("frac", seq(vec![lit("."), plus(r("DIGIT"))])),
        ("exp", seq(vec![lit("e"), opt(alt(vec![lit("-"), lit("+")])), plus(r("DIGIT"))])),
        ("true", cs("true")),
        ("false", cs("false")),
        ("null", cs("null")),
        ("function-name", seq(vec![r("function-name-first"), star(r("function-name-char"))])),
        ("function-name-first", r("LCALPHA")),
        ("function-name-char", alt(vec![r("function-name-first"), lit("_"), r("DIGIT")])),
        ("LCALPHA", rg(0x61, 0x7A)),
        (
            "function-expr",
            seq(vec![
                r("function-name"),
                lit("("),
                r("S"),
                opt(seq(vec![r("function-argument"), star(seq(vec![r("S"), lit(","), r("S"), r("function-argument")]))])),
                r("S"),
                lit(")"),
            ]),
        ),
        ("function-argument", alt(vec![r("literal"), r("filter-query"), r("logical-expr"), r("function-expr")])),
        ("segment", alt(vec![r("child-segment"), r("descendant-segment")])),
        ("child-segment", alt(vec![r("bracketed-selection"), seq(vec![lit("."), alt(vec![r("wildcard-selector"), r("member-name-shorthand")])])])),
        ("bracketed-selection", seq(vec![lit("["), r("S"), r("selector"), star(seq(vec![r("S"), lit(","), r("S"), r("selector")])), r("S"), lit("]")])),
        ("member-name-shorthand", seq(vec![r("name-first"), star(r("name-char"))])),
        ("name-first", alt(vec![r("ALPHA"), lit("_"), rg(0x80, 0xD7FF), rg(0xE000, 0x10FFFF)])),
        ("name-char", alt(vec![r("name-first"), r("DIGIT")])),
        ("DIGIT", rg(0x30, 0x39)),
        ("ALPHA", alt(vec![rg(0x41, 0x5A), rg(0x61, 0x7A)])),
        ("descendant-segment", seq(vec![lit(".."), alt(vec![r("bracketed-selection"), r("wildcard-selector"), r("member-name-shorthand")])])),
        // Normalized Paths (section 2.7)
        ("normalized-path", seq(vec![r("root-identifier"), star(r("normal-index-segment"))])),
        ("normal-index-segment", seq(vec![lit("["), r("normal-selector"), lit("]")])),
        ("normal-selector", alt(vec![r("normal-name-selector"), r("normal-index-selector")])),
        ("normal-name-selector", seq(vec![rg(0x27, 0x27), star(r("normal-single-quoted")), rg(0x27, 0x27)])),
        ("normal-single-quoted", alt(vec![r("normal-unescaped"), seq(vec![r("ESC"), r("normal-escapable")])])),
        ("normal-unescaped", alt(vec![rg(0x20, 0x26), rg(0x28, 0x5B), rg(0x5D, 0xD7FF), rg(0xE000, 0x10FFFF)])),
        (
            "normal-escapable",
            alt(vec![rg(0x62, 0x62), rg(0x66, 0x66), rg(0x6E, 0x6E), rg(0x72, 0x72), rg(0x74, 0x74), lit("'"), lit("\\"), seq(vec![rg(0x75, 0x75), r("normal-hexchar")])]),
        ),
        (
            "normal-hexchar",
            seq(vec![
                lit("0"),
                lit("0"),
                alt(vec![seq(vec![lit("0"), rg(0x30, 0x37)]), seq(vec![lit("0"), rg(0x62, 0x62)]), seq(vec![lit("0"), rg(0x65, 0x66)]), seq(vec![lit("1"), r("normal-HEXDIG")])]),
            ]),
        ),
        ("normal-HEXDIG", alt(vec![r("DIGIT"), rg(0x61, 0x66)])),
        ("normal-index-selector", alt(vec![lit("0"), seq(vec![r("DIGIT1"), star(r("DIGIT"))])])),
    ];
    let mut index = HashMap::new();
    for (i, (n, _)) in rules.iter().enumerate() {
        index.insert(*n, i);
    }
    let mut g = Grammar { rules, index, min_len: vec![] };
    g.compute_min_len();
    g
}

impl Grammar {
    pub fn rule(&self, name: &str) -> usize {
        *self.index.get(name).unwrap_or_else(|| panic!("no rule {}", name))
    }

    fn compute_min_len(&mut self) {
        let n = self.rules.len();
        let mut ml = vec![usize::MAX / 4; n];
        loop {
            let mut changed = false;
            for i in 0..n {
                let v = self.min_of(&self.rules[i].1, &ml);
                if v < ml[i] {
                    ml[i] = v;
                    changed = true;
                }
            }
            if !changed {
                break;
            }
        }
        self.min_len = ml;
    }
    fn min_of(&self, e: &E, ml: &[usize]) -> usize {
        match e {
            E::Lit(s) | E::Cs(s) => s.chars().count(),
            E::Range(..) => 1,
            E::Seq(v) => v.iter().map(|x| self.min_of(x, ml)).fold(0usize, |a, b| a.saturating_add(b)),
            E::Alt(v) => v.iter().map(|x| self.min_of(x, ml)).min().unwrap_or(0),
            E::Rep(min, _, x) => self.min_of(x, ml).saturating_mul(*min),
            E::Ref(n) => ml[self.rule(n)],
        }
    }

    /// Does `rule` derive exactly the whole input?
    pub fn matches(&self, rule: &str, input: &[char]) -> bool {
        let mut m = Matcher { g: self, s: input, memo: HashMap::new() };
        let ends = m.rule_ends(self.rule(rule), 0);
        ends.contains(&input.len())
    }
}

struct Matcher<'a> {
    g: &'a Grammar,
    s: &'a [char],
    memo: HashMap<(usize, usize), std::rc::Rc<Vec<usize>>>,
}

impl<'a> Matcher<'a> {
    fn rule_ends(&mut self, rule: usize, pos: usize) -> std::rc::Rc<Vec<usize>> {
        if let Some(v) = self.memo.get(&(rule, pos)) {
            return v.clone();
        }
        // the grammar is not left-recursive, so no in-progress marker is needed
        let e = self.g.rules[rule].1.clone();
        let v = std::rc::Rc::new(self.ends(&e, pos));
        self.memo.insert((rule, pos), v.clone());
        v
    }

    fn ends(&mut self, e: &E, pos: usize) -> Vec<usize> {
        match e {
            E::Lit(l) => {
                let n = l.chars().count();
                if pos + n <= self.s.len() && l.chars().zip(&self.s[pos..pos + n]).all(|(a, b)| a.eq_ignore_ascii_case(b)) {
                    vec![pos + n]
                } else {
                    vec![]
                }
            }
            E::Cs(l) => {
                let n = l.chars().count();
                if pos + n <= self.s.len() && l.chars().zip(&self.s[pos..pos + n]).all(|(a, b)| a == *b) {
                    vec![pos + n]
                } else {
                    vec![]
                }
            }
            E::Range(a, b) => match self.s.get(pos) {
                Some(c) if (*c as u32) >= *a && (*c as u32) <= *b => vec![pos + 1],
                _ => vec![],
            },
            E::Ref(n) => {
                let r = self.g.rule(n);
                (*self.rule_ends(r, pos)).clone()
            }
            E::Seq(v) => {
                let mut cur = vec![pos];
                for x in v {
                    let mut next: Vec<usize> = vec![];
                    for p in &cur {
                        for q in self.ends(x, *p) {
                            next.push(q);
                        }
                    }
                    next.sort_unstable();
                    next.dedup();
                    if next.is_empty() {
                        return next;
                    }
                    cur = next;
                }
                cur
            }
            E::Alt(v) => {
                let mut out = vec![];
                for x in v {
                    out.extend(self.ends(x, pos));
                }
                out.sort_unstable();
                out.dedup();
                out
            }
            E::Rep(min, max, x) => {
                let mut out: Vec<usize> = vec![];
                let mut frontier = vec![pos];
                let mut seen: std::collections::HashSet<usize> = std::collections::HashSet::new();
                let mut count = 0usize;
                if *min == 0 {
                    out.push(pos);
                }
                loop {
                    if let Some(m) = max {
                        if count >= *m {
                            break;
                        }
                    }
                    let mut next = vec![];
                    for p in &frontier {
                        for q in self.ends(x, *p) {
                            if q > *p || max.is_some() {
                                next.push(q);
                            }
                        }
                    }
                    next.sort_unstable();
                    next.dedup();
                    count += 1;
                    if max.is_none() {
                        // unbounded: keep only positions not reached before at count >= min
                        next.retain(|q| !(count >= *min && seen.contains(q)));
                    }
                    if next.is_empty() {
                        break;
                    }
                    if count >= *min {
                        for q in &next {
                            if seen.insert(*q) {
                                out.push(*q);
                            }
                        }
                    }
                    frontier = next;
                }
                out.sort_unstable();
                out.dedup();
                out
            }
        }
    }
}

// ---------------------------------------------------------------------------------------------
// sentence derivation

pub struct Deriver<'a> {
    pub g: &'a Grammar,
    pub max_depth: usize,
    /// probability (per mille) of taking another repetition
    pub rep_pm: u64,
    pub s_pm: u64,
}

impl<'a> Deriver<'a> {
    pub fn derive(&self, rule: &str, rng: &mut Rng) -> String {
        let mut out = String::new();
        self.go(&E::Ref(self.g.rules[self.g.rule(rule)].0), 0, rng, &mut out);
        out
    }

    fn pick_char(a: u32, b: u32, rng: &mut Rng) -> char {
        // bias towards the low end (ASCII) but visit the whole range now and then
        let span = b - a + 1;
        let lim = if span > 200 && rng.below(10) < 8 { 96.min(span) } else { span };
        for _ in 0..8 {
            let v = a + rng.below(lim as u64) as u32;
            if let Some(c) = char::from_u32(v) {
                return c;
            }
        }
        char::from_u32(a).unwrap_or('a')
    }

    fn go(&self, e: &E, depth: usize, rng: &mut Rng, out: &mut String) {
        match e {
            E::Lit(s) => {
                for c in s.chars() {
                    // case-insensitive literal: sometimes flip case (only matters for hex / 'e')
                    if c.is_ascii_alphabetic() && rng.below(3) == 0 {
                        if c.is_ascii_uppercase() {
                            out.push(c.to_ascii_lowercase())
                        } else {
                            out.push(c.to_ascii_uppercase())
                        }
                    } else {
                        out.push(c);
                    }
                }
            }
            E::Cs(s) => out.push_str(s),
            E::Range(a, b) => out.push(Self::pick_char(*a, *b, rng)),
            E::Seq(v) => {
                for x in v {
                    self.go(x, depth, rng, out);
                }
            }
            E::Alt(v) => {
                if depth >= self.max_depth {
                    // cheapest alternative
                    let ml = &self.g.min_len;
                    let best = v.iter().min_by_key(|x| self.g.min_of(x, ml)).unwrap();
                    self.go(best, depth + 1, rng, out);
                } else {
                    let i = rng.below(v.len() as u64) as usize;
                    self.go(&v[i], depth + 1, rng, out);
                }
            }
            E::Rep(min, max, x) => {
                let mut n = *min;
                let cap = max.unwrap_or(min + 3).min(min + 3);
                let pm = if depth >= self.max_depth { 0 } else { self.rep_pm };
                while n < cap && rng.below(1000) < pm {
                    n += 1;
                }
                for _ in 0..n {
                    self.go(x, depth + 1, rng, out);
                }
            }
            E::Ref(n) => {
                if *n == "S" {
                    // blanks are cheap to overproduce; control their rate separately
                    while rng.below(1000) < self.s_pm {
                        out.push([' ', '\t', '\n', '\r'][rng.below(4) as usize]);
                    }
                    return;
                }
                let r = self.g.rule(n);
                self.go(&self.g.rules[r].1, depth + 1, rng, out);
            }
        }
    }
}

#[cfg(test)]
mod tests {
    use super::*;
    #[test]
    fn table_basics() {
        let g = rfc9535(false);
        let ok = |s: &str| g.matches("jsonpath-query", &s.chars().collect::<Vec<_>>());
        for s in ["$", "$.a", "$['a']", "$[ 0 , 1 ]", "$[?@.a == 1]", "$[?length(@.a) > 2]", "$..*", "$[::-1]", "$['\\u263a']", "$[?1E2==1e2]", "$[?@ [0] == 1]"] {
            assert!(ok(s), "{}", s);
        }
        for s in ["", "$.", "$[", "$[01]", "$[-0]", "$. a", "$[?@[ 0 ] == 1]", "$[?@.* == 1]", "$[?1]", "$ ", "$[?TRUE == 1]", "$['\\U263a']"] {
            assert!(!ok(s), "{}", s);
        }
        let g2 = rfc9535(true);
        assert!(g2.matches("jsonpath-query", &"$[?@[ 0 ] == 1]".chars().collect::<Vec<_>>()));
        assert!(g.matches("normalized-path", &"$['a'][0]['\\u000b']".chars().collect::<Vec<_>>()));
        assert!(!g.matches("normalized-path", &"$[\"a\"]".chars().collect::<Vec<_>>()));
    }
}
