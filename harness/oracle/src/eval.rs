//! Oracle (c): reference evaluator, a direct transcription of RFC 9535 section 2 over the oracle's
//! AST and JSON model (DESIGN Appendix D). Also oracle (e) (comparison table) and (f) (regex).
//! Deviation switches reproduce *documented open* known findings exactly; all are off by default.

use crate::ast::*;
use crate::json::*;
use regex::Regex;
use std::cell::RefCell;
use std::cmp::Ordering;
use std::collections::HashMap;

#[derive(Debug, Clone, Copy, Default, PartialEq, Eq)]
pub struct Dev {
    /// multi-selector segments evaluate each selector over the whole input list (KF union order)
    pub selector_major: bool,
}

#[derive(Debug, Default, Clone)]
pub struct Flags {
    /// regex subject with CR/LF/U+2028/U+2029 and a pattern with `.` or a negated class (zone U3)
    pub u3: bool,
    /// numerically equal int/float twins met as elements of in/nin/... arguments (zone U5)
    pub u5: bool,
    /// an integer beyond the exact range compared with a float, or a non-finite float (zone U2)
    pub u2: bool,
    /// functions applied: (name, arg kinds, result kind) for coverage evidence
    pub fn_calls: Vec<(String, String, String)>,
    /// comparisons performed (op, lhs kind, rhs kind, verdict)
    pub cmps: Vec<(CmpOp, &'static str, &'static str, bool)>,
    pub record: bool,
}

pub struct Ctx<'a> {
    pub root: &'a J,
    pub steps: u64,
    pub budget: u64,
    pub dev: Dev,
    pub flags: Flags,
}

#[derive(Debug, Clone, Copy, PartialEq, Eq)]
pub struct OutOfBudget;

pub type Node<'a> = (Loc, &'a J);

#[derive(Debug, Clone)]
pub enum Opd<'a> {
    Nothing,
    Ref(&'a J),
    Own(J),
}

impl<'a> Opd<'a> {
    pub fn get(&self) -> Option<&J> {
        match self {
            Opd::Nothing => None,
            Opd::Ref(j) => Some(j),
            Opd::Own(j) => Some(j),
        }
    }
    pub fn kind(&self) -> &'static str {
        match self.get() {
            None => "nothing",
            Some(j) => j.kind(),
        }
    }
}

/// RFC 9535 2.3.5.2.2 comparison table.
pub fn compare(op: CmpOp, a: Option<&J>, b: Option<&J>) -> bool {
    fn eq(a: Option<&J>, b: Option<&J>) -> bool {
        match (a, b) {
            (None, None) => true,
            (Some(x), Some(y)) => json_eq(x, y),
            _ => false,
        }
    }
    fn lt(a: Option<&J>, b: Option<&J>) -> bool {
        match (a, b) {
            (Some(J::Num(x)), Some(J::Num(y))) => num_cmp(*x, *y) == Some(Ordering::Less),
            (Some(J::Str(x)), Some(J::Str(y))) => x.chars().lt(y.chars()),
            _ => false,
        }
    }
    match op {
        CmpOp::Eq => eq(a, b),
        CmpOp::Ne => !eq(a, b),
        CmpOp::Lt => lt(a, b),
        CmpOp::Gt => lt(b, a),
        CmpOp::Le => lt(a, b) || eq(a, b),
        CmpOp::Ge => lt(b, a) || eq(a, b),
    }
}

thread_local! {
    static RX: RefCell<HashMap<(String, bool), Option<Regex>>> = RefCell::new(HashMap::new());
}

/// Oracle (f): whole-string match / substring search in the `regex` crate's dialect.
pub fn regex_oracle(subject: &str, pattern: &str, search: bool) -> bool {
    RX.with(|c| {
        let mut c = c.borrow_mut();
        if c.len() > 4096 {
            c.clear();
        }
        let e = c.entry((pattern.to_string(), search)).or_insert_with(|| {
            if search {
                Regex::new(pattern).ok()
            } else {
                // the pattern must be valid on its own, then anchor the whole of it
                Regex::new(pattern).ok().and_then(|_| Regex::new(&format!("\\A(?:{})\\z", pattern)).ok())
            }
        });
        match e {
            Some(r) => r.is_match(subject),
            None => false,
        }
    })
}

pub fn u3_zone(subject: &str, pattern: &str) -> bool {
    subject.chars().any(|c| matches!(c, '\r' | '\n' | '\u{2028}' | '\u{2029}'))
        && (pattern.contains('.') || pattern.contains("[^") || pattern.contains("\\P") || pattern.contains("\\S") || pattern.contains("\\D") || pattern.contains("\\W"))
}

fn strict_eq(a: &J, b: &J) -> bool {
    match (a, b) {
        (J::Num(N::Int(x)), J::Num(N::Int(y))) => x == y,
        (J::Num(N::Big(x)), J::Num(N::Big(y))) => x == y,
        (J::Num(N::Float(x)), J::Num(N::Float(y))) => x == y,
        (J::Num(_), J::Num(_)) => false,
        (J::Arr(x), J::Arr(y)) => x.len() == y.len() && x.iter().zip(y).all(|(p, q)| strict_eq(p, q)),
        (J::Obj(x), J::Obj(y)) => {
            x.len() == y.len()
                && x.iter().all(|(k, v)| match y.iter().find(|(k2, _)| k2 == k) {
                    Some((_, v2)) => strict_eq(v, v2),
                    None => false,
                })
        }
        _ => json_eq(a, b),
    }
}

pub enum FnRes<'a> {
    Value(Opd<'a>),
    Logical(bool),
}

impl<'a> Ctx<'a> {
    pub fn new(root: &'a J) -> Ctx<'a> {
        Ctx { root, steps: 0, budget: 50_000_000, dev: Dev::default(), flags: Flags::default() }
    }
    pub fn with_dev(root: &'a J, dev: Dev) -> Ctx<'a> {
        let mut c = Ctx::new(root);
        c.dev = dev;
        c
    }

    fn tick(&mut self, n: u64) -> Result<(), OutOfBudget> {
        self.steps += n;
        if self.steps > self.budget {
            Err(OutOfBudget)
        } else {
            Ok(())
        }
    }

    /// Evaluates a query; `current` is the node `@` denotes (with its location prefix).
    pub fn eval(&mut self, q: &Query, current: Option<Node<'a>>) -> Result<Vec<Node<'a>>, OutOfBudget> {
        let mut nodes: Vec<Node<'a>> = match q.root {
            Root::Root => vec![(vec![], self.root)],
            Root::Current => match current {
                Some(c) => vec![c],
                None => vec![(vec![], self.root)],
            },
        };
        for seg in &q.segments {
            nodes = self.apply_segment(seg, nodes)?;
        }
        Ok(nodes)
    }

    pub fn apply_segment(&mut self, seg: &Segment, input: Vec<Node<'a>>) -> Result<Vec<Node<'a>>, OutOfBudget> {
        let visited: Vec<Node<'a>> = if seg.descendant {
            let mut v = vec![];
            for n in input {
                self.preorder(n, &mut v)?;
            }
            v
        } else {
            input
        };
        let mut out = vec![];
        if self.dev.selector_major && seg.selectors.len() > 1 {
            for s in &seg.selectors {
                for n in &visited {
                    self.select(s, n, &mut out)?;
                }
            }
        } else {
            for n in &visited {
                for s in &seg.selectors {
                    self.select(s, n, &mut out)?;
                }
            }
        }
        Ok(out)
    }

    fn preorder(&mut self, n: Node<'a>, out: &mut Vec<Node<'a>>) -> Result<(), OutOfBudget> {
        self.tick(1)?;
        let (loc, j) = n;
        let kids = j.children();
        out.push((loc.clone(), j));
        for (s, c) in kids {
            let mut l = loc.clone();
            l.push(s);
            self.preorder((l, c), out)?;
        }
        Ok(())
    }

    /// the nodes one selector selects from one node, appended to `out`
    pub fn select(&mut self, s: &Selector, n: &Node<'a>, out: &mut Vec<Node<'a>>) -> Result<(), OutOfBudget> {
        self.tick(1)?;
        let (loc, j) = n;
        let push = |out: &mut Vec<Node<'a>>, st: Step, c: &'a J| {
            let mut l = loc.clone();
            l.push(st);
            out.push((l, c));
        };
        match s {
            Selector::Name(k) => {
                if let J::Obj(o) = j {
                    if let Some((_, v)) = o.iter().find(|(k2, _)| k2 == k) {
                        push(out, Step::Key(k.clone()), v);
                    }
                }
            }
            Selector::Index(i) => {
                if let J::Arr(a) = j {
                    let len = a.len() as i128;
                    let idx = if *i >= 0 { *i as i128 } else { len + *i as i128 };
                    if idx >= 0 && idx < len {
                        push(out, Step::Idx(idx as usize), &a[idx as usize]);
                    }
                }
            }
            Selector::Wildcard => match j {
                J::Arr(a) => {
                    for (i, c) in a.iter().enumerate() {
                        push(out, Step::Idx(i), c);
                    }
                }
                J::Obj(o) => {
                    for (k, c) in o.iter() {
                        push(out, Step::Key(k.clone()), c);
                    }
                }
                _ => {}
            },
            Selector::Slice(st, en, sp) => {
                if let J::Arr(a) = j {
                    for i in slice_indices(a.len(), *st, *en, *sp) {
                        self.tick(1)?;
                        push(out, Step::Idx(i), &a[i]);
                    }
                }
            }
            Selector::Filter(f) => match j {
                J::Arr(a) => {
                    for (i, c) in a.iter().enumerate() {
                        let mut l = loc.clone();
                        l.push(Step::Idx(i));
                        if self.truth(f, &(l.clone(), c))? {
                            out.push((l, c));
                        }
                    }
                }
                J::Obj(o) => {
                    for (k, c) in o.iter() {
                        let mut l = loc.clone();
                        l.push(Step::Key(k.clone()));
                        if self.truth(f, &(l.clone(), c))? {
                            out.push((l, c));
                        }
                    }
                }
                _ => {}
            },
        }
        Ok(())
    }

    pub fn truth(&mut self, e: &Or, cur: &Node<'a>) -> Result<bool, OutOfBudget> {
        self.tick(1)?;
        for a in &e.0 {
            let mut all = true;
            for b in &a.0 {
                if !self.basic(b, cur)? {
                    all = false;
                    break;
                }
            }
            if all {
                return Ok(true);
            }
        }
        Ok(false)
    }

    fn basic(&mut self, b: &Basic, cur: &Node<'a>) -> Result<bool, OutOfBudget> {
        match b {
            Basic::Paren { not, inner } => Ok(*not != self.truth(inner, cur)?),
            Basic::Test { not, test: TestExpr::Query(q) } => {
                let r = self.eval(q, Some(cur.clone()))?;
                Ok(*not != !r.is_empty())
            }
            Basic::Test { not, test: TestExpr::Func(f) } => {
                let v = match self.call(f, cur)? {
                    FnRes::Logical(b) => b,
                    // ill-typed (ValueType result as test): treat "has a value" as true; never
                    // reached for Valid queries
                    FnRes::Value(o) => o.get().is_some(),
                };
                Ok(*not != v)
            }
            Basic::Cmp { lhs, op, rhs } => {
                let a = self.operand(lhs, cur)?;
                let b = self.operand(rhs, cur)?;
                // zone U2: a number outside the exact range meets a float (or is one). Two
                // integers are compared exactly whatever their magnitude, so they are judged.
                let both_int = matches!((a.get(), b.get()), (Some(J::Num(x)), Some(J::Num(y))) if x.is_integer_typed() && y.is_integer_typed());
                let both_num = matches!((a.get(), b.get()), (Some(J::Num(_)), Some(J::Num(_))));
                let both_float = matches!((a.get(), b.get()), (Some(J::Num(N::Float(_))), Some(J::Num(N::Float(_)))));
                if both_num && !both_int {
                    for o in [&a, &b] {
                        if let Some(J::Num(n)) = o.get() {
                            // two floats are compared exactly as floats; an integer beyond 2^53
                            // against a float is where conversions lose precision
                            if (!both_float && !n.in_exact_range()) || !n.as_f64().is_finite() {
                                self.flags.u2 = true;
                            }
                        }
                    }
                }
                let v = compare(*op, a.get(), b.get());
                if self.flags.record {
                    self.flags.cmps.push((*op, a.kind(), b.kind(), v));
                }
                Ok(v)
            }
        }
    }

    pub fn operand(&mut self, c: &Comparable, cur: &Node<'a>) -> Result<Opd<'a>, OutOfBudget> {
        match c {
            Comparable::Lit(l) => Ok(Opd::Own(l.to_json())),
            Comparable::Singular { root, steps } => {
                let mut j: &'a J = match root {
                    Root::Root => self.root,
                    Root::Current => cur.1,
                };
                for s in steps {
                    self.tick(1)?;
                    let next = match (s, j) {
                        (SingStep::Name(k), J::Obj(o)) => o.iter().find(|(k2, _)| k2 == k).map(|(_, v)| v),
                        (SingStep::Index(i), J::Arr(a)) => {
                            let len = a.len() as i128;
                            let idx = if *i >= 0 { *i as i128 } else { len + *i as i128 };
                            if idx >= 0 && idx < len {
                                Some(&a[idx as usize])
                            } else {
                                None
                            }
                        }
                        _ => None,
                    };
                    match next {
                        Some(n) => j = n,
                        None => return Ok(Opd::Nothing),
                    }
                }
                Ok(Opd::Ref(j))
            }
            Comparable::Func(f) => match self.call(f, cur)? {
                FnRes::Value(o) => Ok(o),
                // ill-typed; never reached for Valid queries
                FnRes::Logical(b) => Ok(Opd::Own(J::Bool(b))),
            },
        }
    }

    /// ValueType argument: literal, singular query (value or Nothing), ValueType function
    fn value_arg(&mut self, a: &Arg, cur: &Node<'a>) -> Result<Opd<'a>, OutOfBudget> {
        match a {
            Arg::Lit(l) => Ok(Opd::Own(l.to_json())),
            Arg::Query(q) => {
                let r = self.eval(q, Some(cur.clone()))?;
                if r.len() == 1 {
                    Ok(Opd::Ref(r[0].1))
                } else {
                    // singular queries yield at most one node; for ill-typed non-singular
                    // arguments the oracle abstains by construction (never Valid)
                    Ok(Opd::Nothing)
                }
            }
            Arg::Func(f) => match self.call(f, cur)? {
                FnRes::Value(o) => Ok(o),
                FnRes::Logical(b) => Ok(Opd::Own(J::Bool(b))),
            },
            Arg::Logical(o) => Ok(Opd::Own(J::Bool(self.truth(o, cur)?))),
        }
    }

    fn nodes_arg(&mut self, a: &Arg, cur: &Node<'a>) -> Result<Vec<Node<'a>>, OutOfBudget> {
        match a {
            Arg::Query(q) => self.eval(q, Some(cur.clone())),
            _ => Ok(vec![]),
        }
    }

    pub fn call(&mut self, f: &FuncCall, cur: &Node<'a>) -> Result<FnRes<'a>, OutOfBudget> {
        self.tick(1)?;
        let rec = self.flags.record;
        let res = match (f.name.as_str(), f.args.as_slice()) {
            ("length", [a]) => {
                let v = self.value_arg(a, cur)?;
                let r = match v.get() {
                    Some(J::Str(s)) => Opd::Own(J::int(s.chars().count() as i64)),
                    Some(J::Arr(x)) => Opd::Own(J::int(x.len() as i64)),
                    Some(J::Obj(x)) => Opd::Own(J::int(x.len() as i64)),
                    _ => Opd::Nothing,
                };
                if rec {
                    self.flags.fn_calls.push(("length".into(), v.kind().into(), r.kind().into()));
                }
                FnRes::Value(r)
            }
            ("count", [a]) => {
                let n = self.nodes_arg(a, cur)?.len();
                if rec {
                    self.flags.fn_calls.push(("count".into(), format!("nodes{}", n.min(3)), "number".into()));
                }
                FnRes::Value(Opd::Own(J::int(n as i64)))
            }
            ("value", [a]) => {
                let ns = self.nodes_arg(a, cur)?;
                let r = if ns.len() == 1 { Opd::Ref(ns[0].1) } else { Opd::Nothing };
                if rec {
                    self.flags.fn_calls.push(("value".into(), format!("nodes{}", ns.len().min(3)), r.kind().into()));
                }
                FnRes::Value(r)
            }
            (n @ ("match" | "search"), [a, b]) => {
                let s = self.value_arg(a, cur)?;
                let p = self.value_arg(b, cur)?;
                let r = match (s.get(), p.get()) {
                    (Some(J::Str(s)), Some(J::Str(p))) => {
                        if u3_zone(s, p) {
                            self.flags.u3 = true;
                        }
                        regex_oracle(s, p, n == "search")
                    }
                    _ => false,
                };
                if rec {
                    self.flags.fn_calls.push((n.into(), format!("{},{}", s.kind(), p.kind()), r.to_string()));
                }
                FnRes::Logical(r)
            }
            (n @ ("in" | "nin" | "none_of" | "any_of" | "subset_of"), [a, b]) => {
                let x = self.value_arg(a, cur)?;
                let y = self.value_arg(b, cur)?;
                let mut u5 = false;
                let mut eqf = |p: &J, q: &J| {
                    let e = json_eq(p, q);
                    if e != strict_eq(p, q) {
                        u5 = true;
                    }
                    e
                };
                let r = match (n, x.get(), y.get()) {
                    ("in", Some(v), Some(J::Arr(l))) => l.iter().fold(false, |acc, e| eqf(e, v) || acc),
                    ("nin", Some(v), Some(J::Arr(l))) => !l.iter().fold(false, |acc, e| eqf(e, v) || acc),
                    ("any_of", Some(J::Arr(p)), Some(J::Arr(q))) => p.iter().fold(false, |acc, e| q.iter().fold(false, |a2, g| eqf(e, g) || a2) || acc),
                    ("none_of", Some(J::Arr(p)), Some(J::Arr(q))) => !p.iter().fold(false, |acc, e| q.iter().fold(false, |a2, g| eqf(e, g) || a2) || acc),
                    ("subset_of", Some(J::Arr(p)), Some(J::Arr(q))) => p.iter().fold(true, |acc, e| q.iter().fold(false, |a2, g| eqf(e, g) || a2) && acc),
                    _ => false,
                };
                if u5 {
                    self.flags.u5 = true;
                }
                if rec {
                    self.flags.fn_calls.push((n.into(), format!("{},{}", x.kind(), y.kind()), r.to_string()));
                }
                FnRes::Logical(r)
            }
            // unknown function or wrong arity: the library's extension hook answers null -> false
            _ => FnRes::Logical(false),
        };
        Ok(res)
    }
}

/// RFC 9535 2.3.4.2.2, verbatim (all arithmetic in i128: cannot overflow).
pub fn slice_indices(len: usize, start: Option<i64>, end: Option<i64>, step: Option<i64>) -> Vec<usize> {
    let len = len as i128;
    let step = step.unwrap_or(1) as i128;
    if step == 0 {
        return vec![];
    }
    let norm = |i: i128| if i >= 0 { i } else { len + i };
    let (start, end) = if step >= 0 {
        (start.map(|v| v as i128).unwrap_or(0), end.map(|v| v as i128).unwrap_or(len))
    } else {
        (start.map(|v| v as i128).unwrap_or(len - 1), end.map(|v| v as i128).unwrap_or(-len - 1))
    };
    let (n_start, n_end) = (norm(start), norm(end));
    let mut out = vec![];
    if step > 0 {
        let lower = n_start.max(0).min(len);
        let upper = n_end.max(0).min(len);
        let mut i = lower;
        while i < upper {
            out.push(i as usize);
            i += step;
        }
    } else {
        let upper = n_start.max(-1).min(len - 1);
        let lower = n_end.max(-1).min(len - 1);
        let mut i = upper;
        while lower < i {
            out.push(i as usize);
            i += step;
        }
    }
    out
}

/// Convenience: evaluate a root query, returning locations.
pub fn eval_locs(q: &Query, root: &J, dev: Dev) -> Result<(Vec<Loc>, Flags, u64), OutOfBudget> {
    let mut ctx = Ctx::with_dev(root, dev);
    let r = ctx.eval(q, None)?;
    Ok((r.into_iter().map(|(l, _)| l).collect(), ctx.flags, ctx.steps))
}
