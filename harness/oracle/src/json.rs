//! The oracle's own JSON data model: ordered objects, numbers as Int | Float, locations.
//! Written from RFC 8259 / RFC 9535 section 1.1; nothing here is derived from the library.

use std::cmp::Ordering;
use std::fmt::Write;

#[derive(Debug, Clone, Copy)]
pub enum N {
    Int(i64),
    /// an integer above i64::MAX (invariant: the value does not fit `Int`); documents can hold
    /// such numbers (serde_json stores them as u64), query literals cannot
    Big(u64),
    Float(f64),
}

#[derive(Debug, Clone)]
pub enum J {
    Null,
    Bool(bool),
    Num(N),
    Str(String),
    Arr(Vec<J>),
    /// members in the order the data type enumerates them
    Obj(Vec<(String, J)>),
}

#[derive(Debug, Clone, PartialEq, Eq, Hash, PartialOrd, Ord)]
pub enum Step {
    Key(String),
    Idx(usize),
}
pub type Loc = Vec<Step>;

/// Exact comparison of two JSON numbers by mathematical value. None if a NaN is involved.
pub fn num_cmp(a: N, b: N) -> Option<Ordering> {
    match (a, b) {
        (N::Int(x), N::Int(y)) => Some(x.cmp(&y)),
        (N::Float(x), N::Float(y)) => x.partial_cmp(&y),
        (N::Int(x), N::Float(y)) => int_float_cmp(x as i128, y),
        (N::Float(x), N::Int(y)) => int_float_cmp(y as i128, x).map(|o| o.reverse()),
        (N::Big(x), N::Big(y)) => Some(x.cmp(&y)),
        (N::Big(_), N::Int(_)) => Some(Ordering::Greater),
        (N::Int(_), N::Big(_)) => Some(Ordering::Less),
        (N::Big(x), N::Float(y)) => int_float_cmp(x as i128, y),
        (N::Float(x), N::Big(y)) => int_float_cmp(y as i128, x).map(|o| o.reverse()),
    }
}

fn int_float_cmp(i: i128, f: f64) -> Option<Ordering> {
    if f.is_nan() {
        return None;
    }
    if f == f64::INFINITY {
        return Some(Ordering::Less);
    }
    if f == f64::NEG_INFINITY {
        return Some(Ordering::Greater);
    }
    // |f| < 2^65 check; beyond that the float dominates (integers here are below 2^64)
    if f >= 3.7e19 {
        return Some(Ordering::Less);
    }
    if f <= -3.7e19 {
        return Some(Ordering::Greater);
    }
    let fl = f.floor();
    let fi = fl as i128; // exact: |fl| < 2^66 and integral
    let ii = i;
    match ii.cmp(&fi) {
        Ordering::Equal => {
            if f > fl {
                Some(Ordering::Less)
            } else {
                Some(Ordering::Equal)
            }
        }
        o => Some(o),
    }
}

impl N {
    pub fn as_f64(self) -> f64 {
        match self {
            N::Int(i) => i as f64,
            N::Big(u) => u as f64,
            N::Float(f) => f,
        }
    }
    pub fn is_integer_typed(self) -> bool {
        matches!(self, N::Int(_) | N::Big(_))
    }
    /// true when |value| <= 2^53-1 (I-JSON exact range) or the value is a float that is not an
    /// integer beyond that range; used by the "unsettled U2" zone
    pub fn in_exact_range(self) -> bool {
        match self {
            N::Int(i) => i.unsigned_abs() <= 9007199254740991,
            N::Big(_) => false,
            N::Float(f) => f.is_finite() && f.abs() <= 9007199254740991.0,
        }
    }
}

/// RFC 9535 equality of two JSON values (section 2.3.5.2.2): numbers by value, deep for
/// arrays (same length, pairwise) and objects (same names, per-name), no cross-type equality.
pub fn json_eq(a: &J, b: &J) -> bool {
    match (a, b) {
        (J::Null, J::Null) => true,
        (J::Bool(x), J::Bool(y)) => x == y,
        (J::Num(x), J::Num(y)) => num_cmp(*x, *y) == Some(Ordering::Equal),
        (J::Str(x), J::Str(y)) => x == y,
        (J::Arr(x), J::Arr(y)) => x.len() == y.len() && x.iter().zip(y).all(|(p, q)| json_eq(p, q)),
        (J::Obj(x), J::Obj(y)) => {
            if x.len() != y.len() {
                return false;
            }
            // objects cannot have duplicate names in our model
            x.iter().all(|(k, v)| match y.iter().find(|(k2, _)| k2 == k) {
                Some((_, v2)) => json_eq(v, v2),
                None => false,
            })
        }
        _ => false,
    }
}

impl J {
    pub fn int(i: i64) -> J {
        J::Num(N::Int(i))
    }
    pub fn float(f: f64) -> J {
        J::Num(N::Float(f))
    }
    /// an unsigned integer; values up to i64::MAX are ordinary `Int`s
    pub fn uint(u: u64) -> J {
        if u <= i64::MAX as u64 { J::Num(N::Int(u as i64)) } else { J::Num(N::Big(u)) }
    }
    pub fn str(s: &str) -> J {
        J::Str(s.to_string())
    }
    pub fn kind(&self) -> &'static str {
        match self {
            J::Null => "null",
            J::Bool(_) => "bool",
            J::Num(_) => "number",
            J::Str(_) => "string",
            J::Arr(_) => "array",
            J::Obj(_) => "object",
        }
    }
    pub fn is_container(&self) -> bool {
        matches!(self, J::Arr(_) | J::Obj(_))
    }

    pub fn child(&self, s: &Step) -> Option<&J> {
        match (self, s) {
            (J::Arr(a), Step::Idx(i)) => a.get(*i),
            (J::Obj(o), Step::Key(k)) => o.iter().find(|(k2, _)| k2 == k).map(|(_, v)| v),
            _ => None,
        }
    }
    pub fn at(&self, loc: &[Step]) -> Option<&J> {
        let mut cur = self;
        for s in loc {
            cur = cur.child(s)?;
        }
        Some(cur)
    }
    pub fn at_mut(&mut self, loc: &[Step]) -> Option<&mut J> {
        let mut cur = self;
        for s in loc {
            cur = match (cur, s) {
                (J::Arr(a), Step::Idx(i)) => a.get_mut(*i)?,
                (J::Obj(o), Step::Key(k)) => o.iter_mut().find(|(k2, _)| k2 == k).map(|(_, v)| v)?,
                _ => return None,
            };
        }
        Some(cur)
    }
    /// children in container order with the step that leads to each
    pub fn children(&self) -> Vec<(Step, &J)> {
        match self {
            J::Arr(a) => a.iter().enumerate().map(|(i, v)| (Step::Idx(i), v)).collect(),
            J::Obj(o) => o.iter().map(|(k, v)| (Step::Key(k.clone()), v)).collect(),
            _ => vec![],
        }
    }
    pub fn node_count(&self) -> usize {
        1 + match self {
            J::Arr(a) => a.iter().map(|c| c.node_count()).sum(),
            J::Obj(o) => o.iter().map(|(_, c)| c.node_count()).sum(),
            _ => 0,
        }
    }
    pub fn depth(&self) -> usize {
        match self {
            J::Arr(a) => 1 + a.iter().map(|c| c.depth()).max().unwrap_or(0),
            J::Obj(o) => 1 + o.iter().map(|(_, c)| c.depth()).max().unwrap_or(0),
            _ => 0,
        }
    }
    /// all locations in pre-order
    pub fn all_locs(&self) -> Vec<Loc> {
        fn walk(j: &J, cur: &mut Loc, out: &mut Vec<Loc>) {
            out.push(cur.clone());
            for (s, c) in j.children() {
                cur.push(s);
                walk(c, cur, out);
                cur.pop();
            }
        }
        let mut out = vec![];
        walk(self, &mut vec![], &mut out);
        out
    }

    pub fn from_value(v: &serde_json::Value) -> J {
        use serde_json::Value as V;
        match v {
            V::Null => J::Null,
            V::Bool(b) => J::Bool(*b),
            V::Number(n) => {
                if let Some(i) = n.as_i64() {
                    J::Num(N::Int(i))
                } else if let Some(u) = n.as_u64() {
                    J::Num(N::Big(u))
                } else {
                    J::Num(N::Float(n.as_f64().unwrap_or(f64::NAN)))
                }
            }
            V::String(s) => J::Str(s.clone()),
            V::Array(a) => J::Arr(a.iter().map(J::from_value).collect()),
            V::Object(o) => J::Obj(o.iter().map(|(k, v)| (k.clone(), J::from_value(v))).collect()),
        }
    }
    /// Builds the serde_json value (object member order then follows serde_json's map).
    pub fn to_value(&self) -> serde_json::Value {
        use serde_json::Value as V;
        match self {
            J::Null => V::Null,
            J::Bool(b) => V::Bool(*b),
            J::Num(N::Int(i)) => V::Number((*i).into()),
            J::Num(N::Big(u)) => V::Number((*u).into()),
            J::Num(N::Float(f)) => serde_json::Number::from_f64(*f).map(V::Number).unwrap_or(V::Null),
            J::Str(s) => V::String(s.clone()),
            J::Arr(a) => V::Array(a.iter().map(|c| c.to_value()).collect()),
            J::Obj(o) => V::Object(o.iter().map(|(k, v)| (k.clone(), v.to_value())).collect()),
        }
    }
    /// compact JSON text (for replay files and samples)
    pub fn to_text(&self) -> String {
        let mut s = String::new();
        self.write_text(&mut s);
        s
    }
    fn write_text(&self, out: &mut String) {
        match self {
            J::Null => out.push_str("null"),
            J::Bool(b) => {
                let _ = write!(out, "{}", b);
            }
            J::Num(N::Int(i)) => {
                let _ = write!(out, "{}", i);
            }
            J::Num(N::Big(u)) => {
                let _ = write!(out, "{}", u);
            }
            J::Num(N::Float(f)) => {
                if f.is_finite() {
                    if f.fract() == 0.0 && f.abs() < 1e15 {
                        let _ = write!(out, "{:.1}", f);
                    } else {
                        let _ = write!(out, "{:e}", f);
                    }
                } else {
                    out.push_str("null");
                }
            }
            J::Str(s) => json_str(s, out),
            J::Arr(a) => {
                out.push('[');
                for (i, c) in a.iter().enumerate() {
                    if i > 0 {
                        out.push(',');
                    }
                    c.write_text(out);
                }
                out.push(']');
            }
            J::Obj(o) => {
                out.push('{');
                for (i, (k, c)) in o.iter().enumerate() {
                    if i > 0 {
                        out.push(',');
                    }
                    json_str(k, out);
                    out.push(':');
                    c.write_text(out);
                }
                out.push('}');
            }
        }
    }
}

pub fn json_str(s: &str, out: &mut String) {
    out.push('"');
    for c in s.chars() {
        match c {
            '"' => out.push_str("\\\""),
            '\\' => out.push_str("\\\\"),
            '\n' => out.push_str("\\n"),
            '\r' => out.push_str("\\r"),
            '\t' => out.push_str("\\t"),
            c if (c as u32) < 0x20 || c == '\u{7f}' => {
                let _ = write!(out, "\\u{:04x}", c as u32);
            }
            c => out.push(c),
        }
    }
    out.push('"');
}

pub fn json_string(s: &str) -> String {
    let mut o = String::new();
    json_str(s, &mut o);
    o
}

pub fn loc_text(loc: &[Step]) -> String {
    crate::npath::render(loc)
}
