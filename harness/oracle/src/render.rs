//! AST -> concrete query strings, in all the spellings RFC 9535 allows (DESIGN 2.5 "Rendering").
//! One AST has many renderings; by construction all of them denote the same query.

use crate::ast::*;
use crate::rng::Rng;
use std::fmt::Write;

#[derive(Debug, Clone, Copy, PartialEq, Eq)]
pub enum NameStyle {
    /// `['name']`
    Single,
    /// `["name"]`
    Double,
    /// `.name` when the name allows it, else `['name']`
    Shorthand,
    /// a random choice per name
    Random,
}

#[derive(Debug, Clone, Copy, PartialEq, Eq)]
pub enum EscStyle {
    /// raw where allowed; otherwise the short escape, else \uXXXX upper-case
    Minimal,
    /// raw where allowed; otherwise the short escape, else \uxxxx lower-case
    MinimalLower,
    /// random form per character (raw / short / \u upper / \u lower / surrogate pair)
    Random,
    /// escape everything that can be escaped with \uXXXX (upper-case)
    AllUnicodeUpper,
    /// like Minimal, and the solidus written as `\/` (an optional escape)
    Solidus,
}

#[derive(Debug, Clone)]
pub enum Blanks {
    None,
    /// each S slot gets 1..=2 random blanks with probability pm/1000
    Random { pm: u64 },
    /// exactly slot `slot` gets `text`
    Only { slot: usize, text: String },
    /// slot i gets digits[i] (0 = nothing, 1 = SP, 2 = HT, 3 = LF, 4 = CR)
    Mask(Vec<u8>),
    /// every slot gets `text`
    All(String),
}

#[derive(Debug, Clone)]
pub struct Spelling {
    pub names: NameStyle,
    pub esc: EscStyle,
    pub blanks: Blanks,
    /// `?(e)` instead of `?e`
    pub filter_parens: bool,
    /// wrap each basic expression in this many redundant parentheses (0..)
    pub extra_parens: u8,
    /// `[*]` instead of `.*`
    pub star_bracket: bool,
    /// string literals in comparisons / arguments: true = double quotes
    pub lit_double: bool,
    pub rng: Option<Rng>,
    // counters filled while rendering
    pub slots: usize,
}

impl Spelling {
    pub fn canonical() -> Spelling {
        Spelling {
            names: NameStyle::Single,
            esc: EscStyle::Minimal,
            blanks: Blanks::None,
            filter_parens: false,
            extra_parens: 0,
            star_bracket: true,
            lit_double: false,
            rng: None,
            slots: 0,
        }
    }
    pub fn compact_shorthand() -> Spelling {
        let mut s = Spelling::canonical();
        s.names = NameStyle::Shorthand;
        s.star_bracket = false;
        s
    }
    pub fn random(rng: &mut Rng) -> Spelling {
        let mut r = Rng(rng.next());
        Spelling {
            names: *r.pick(&[NameStyle::Single, NameStyle::Double, NameStyle::Shorthand, NameStyle::Random]),
            esc: *r.pick(&[EscStyle::Minimal, EscStyle::Minimal, EscStyle::Random]),
            blanks: if r.chance(1, 2) { Blanks::None } else { Blanks::Random { pm: 300 } },
            filter_parens: r.chance(1, 3),
            extra_parens: if r.chance(1, 4) { 1 } else { 0 },
            star_bracket: r.chance(1, 2),
            lit_double: r.chance(1, 2),
            rng: Some(r),
            slots: 0,
        }
    }

    fn s(&mut self, out: &mut String) {
        let i = self.slots;
        self.slots += 1;
        match &self.blanks {
            Blanks::None => {}
            Blanks::Random { pm } => {
                let pm = *pm;
                if let Some(r) = self.rng.as_mut() {
                    if r.below(1000) < pm {
                        let n = 1 + r.below(2);
                        for _ in 0..n {
                            out.push([' ', '\t', '\n', '\r'][r.below(4) as usize]);
                        }
                    }
                }
            }
            Blanks::Only { slot, text } => {
                if *slot == i {
                    out.push_str(text);
                }
            }
            Blanks::Mask(d) => match d.get(i).copied().unwrap_or(0) {
                1 => out.push(' '),
                2 => out.push('\t'),
                3 => out.push('\n'),
                4 => out.push('\r'),
                _ => {}
            },
            Blanks::All(t) => out.push_str(t),
        }
    }
}

pub fn shorthand_ok(name: &str) -> bool {
    let mut it = name.chars();
    match it.next() {
        Some(c) if c.is_ascii_alphabetic() || c == '_' || (c as u32) >= 0x80 => {}
        _ => return false,
    }
    it.all(|c| c.is_ascii_alphanumeric() || c == '_' || (c as u32) >= 0x80)
}

/// a string literal with the given quote and escape style
pub fn quote(s: &str, dq: bool, esc: EscStyle, rng: &mut Option<Rng>, out: &mut String) {
    let q = if dq { '"' } else { '\'' };
    out.push(q);
    for c in s.chars() {
        let must_escape = c == q || c == '\\' || (c as u32) < 0x20;
        let short: Option<&str> = match c {
            '\u{8}' => Some("\\b"),
            '\t' => Some("\\t"),
            '\n' => Some("\\n"),
            '\u{c}' => Some("\\f"),
            '\r' => Some("\\r"),
            '\\' => Some("\\\\"),
            '/' => Some("\\/"),
            '\'' if !dq => Some("\\'"),
            '"' if dq => Some("\\\""),
            _ => None,
        };
        let uni = |upper: bool, out: &mut String| {
            let mut buf = [0u16; 2];
            for u in c.encode_utf16(&mut buf) {
                if upper {
                    let _ = write!(out, "\\u{:04X}", u);
                } else {
                    let _ = write!(out, "\\u{:04x}", u);
                }
            }
        };
        match esc {
            EscStyle::Minimal | EscStyle::MinimalLower => {
                if must_escape {
                    match short {
                        Some(e) => out.push_str(e),
                        None => uni(esc == EscStyle::Minimal, out),
                    }
                } else {
                    out.push(c);
                }
            }
            EscStyle::AllUnicodeUpper => uni(true, out),
            EscStyle::Solidus => {
                if must_escape || c == '/' {
                    match short {
                        Some(e) => out.push_str(e),
                        None => uni(true, out),
                    }
                } else {
                    out.push(c);
                }
            }
            EscStyle::Random => {
                let r = rng.as_mut().map(|r| r.below(8)).unwrap_or(0);
                match r {
                    0..=3 if !must_escape => out.push(c),
                    4 | 0 | 1 if short.is_some() => out.push_str(short.unwrap()),
                    5 | 2 => uni(true, out),
                    6 | 3 => uni(false, out),
                    _ => {
                        if must_escape {
                            match short {
                                Some(e) => out.push_str(e),
                                None => uni(true, out),
                            }
                        } else {
                            out.push(c)
                        }
                    }
                }
            }
        }
    }
    out.push(q);
}

pub fn render(q: &Query, sp: &mut Spelling) -> String {
    let mut out = String::new();
    sp.slots = 0;
    query(q, sp, &mut out);
    out
}

pub fn render_canonical(q: &Query) -> String {
    render(q, &mut Spelling::canonical())
}

/// number of S slots the rendering of `q` has under the given non-blank style
pub fn count_slots(q: &Query, sp: &Spelling) -> usize {
    let mut s = sp.clone();
    s.blanks = Blanks::None;
    s.rng = sp.rng.clone();
    let _ = render(q, &mut s);
    s.slots
}

fn query(q: &Query, sp: &mut Spelling, out: &mut String) {
    out.push(match q.root {
        Root::Root => '$',
        Root::Current => '@',
    });
    for seg in &q.segments {
        sp.s(out);
        segment(seg, sp, out);
    }
}

fn name_style_for(sp: &mut Spelling, name: &str) -> NameStyle {
    let st = match sp.names {
        NameStyle::Random => match sp.rng.as_mut().map(|r| r.below(3)).unwrap_or(0) {
            0 => NameStyle::Single,
            1 => NameStyle::Double,
            _ => NameStyle::Shorthand,
        },
        s => s,
    };
    if st == NameStyle::Shorthand && !shorthand_ok(name) {
        NameStyle::Single
    } else {
        st
    }
}

fn segment(seg: &Segment, sp: &mut Spelling, out: &mut String) {
    if seg.descendant {
        out.push_str("..");
    }
    if seg.selectors.len() == 1 {
        match &seg.selectors[0] {
            Selector::Name(n) => {
                if name_style_for(sp, n) == NameStyle::Shorthand {
                    if !seg.descendant {
                        out.push('.');
                    }
                    out.push_str(n);
                    return;
                }
            }
            Selector::Wildcard => {
                if !sp.star_bracket {
                    if !seg.descendant {
                        out.push('.');
                    }
                    out.push('*');
                    return;
                }
            }
            _ => {}
        }
    }
    out.push('[');
    for (i, s) in seg.selectors.iter().enumerate() {
        sp.s(out);
        if i > 0 {
            out.push(',');
            sp.s(out);
        }
        selector(s, sp, out);
    }
    sp.s(out);
    out.push(']');
}

fn selector(s: &Selector, sp: &mut Spelling, out: &mut String) {
    match s {
        Selector::Name(n) => {
            let dq = match name_style_for(sp, n) {
                NameStyle::Double => true,
                _ => false,
            };
            let esc = sp.esc;
            quote(n, dq, esc, &mut sp.rng, out);
        }
        Selector::Wildcard => out.push('*'),
        Selector::Index(i) => {
            let _ = write!(out, "{}", i);
        }
        Selector::Slice(a, b, c) => {
            if let Some(a) = a {
                let _ = write!(out, "{}", a);
                sp.s(out);
            }
            out.push(':');
            sp.s(out);
            if let Some(b) = b {
                let _ = write!(out, "{}", b);
                sp.s(out);
            }
            if let Some(c) = c {
                out.push(':');
                sp.s(out);
                let _ = write!(out, "{}", c);
            } else if sp.rng.as_mut().map(|r| r.chance(1, 4)).unwrap_or(false) {
                out.push(':');
            }
        }
        Selector::Filter(f) => {
            out.push('?');
            sp.s(out);
            if sp.filter_parens {
                out.push('(');
                sp.s(out);
                or(f, sp, out);
                sp.s(out);
                out.push(')');
            } else {
                or(f, sp, out);
            }
        }
    }
}

fn or(o: &Or, sp: &mut Spelling, out: &mut String) {
    for (i, a) in o.0.iter().enumerate() {
        if i > 0 {
            sp.s(out);
            out.push_str("||");
            sp.s(out);
        }
        for (j, b) in a.0.iter().enumerate() {
            if j > 0 {
                sp.s(out);
                out.push_str("&&");
                sp.s(out);
            }
            basic(b, sp, out);
        }
    }
}

fn basic(b: &Basic, sp: &mut Spelling, out: &mut String) {
    let extra = sp.extra_parens;
    // redundant parentheses are only transparent around a whole basic expression
    for _ in 0..extra {
        out.push('(');
        sp.s(out);
    }
    match b {
        Basic::Paren { not, inner } => {
            if *not {
                out.push('!');
                sp.s(out);
            }
            out.push('(');
            sp.s(out);
            or(inner, sp, out);
            sp.s(out);
            out.push(')');
        }
        Basic::Test { not, test } => {
            if *not {
                out.push('!');
                sp.s(out);
            }
            match test {
                TestExpr::Query(q) => query(q, sp, out),
                TestExpr::Func(f) => func(f, sp, out),
            }
        }
        Basic::Cmp { lhs, op, rhs } => {
            comparable(lhs, sp, out);
            sp.s(out);
            out.push_str(op.text());
            sp.s(out);
            comparable(rhs, sp, out);
        }
    }
    for _ in 0..extra {
        sp.s(out);
        out.push(')');
    }
}

fn literal(l: &Literal, sp: &mut Spelling, out: &mut String) {
    match l {
        Literal::Null => out.push_str("null"),
        Literal::True => out.push_str("true"),
        Literal::False => out.push_str("false"),
        Literal::Num { text, .. } => out.push_str(text),
        Literal::Str(s) => {
            let esc = sp.esc;
            let dq = sp.lit_double;
            quote(s, dq, esc, &mut sp.rng, out)
        }
    }
}

fn comparable(c: &Comparable, sp: &mut Spelling, out: &mut String) {
    match c {
        Comparable::Lit(l) => literal(l, sp, out),
        Comparable::Func(f) => func(f, sp, out),
        Comparable::Singular { root, steps } => {
            out.push(match root {
                Root::Root => '$',
                Root::Current => '@',
            });
            for st in steps {
                sp.s(out);
                match st {
                    SingStep::Index(i) => {
                        let _ = write!(out, "[{}]", i);
                    }
                    SingStep::Name(n) => match name_style_for(sp, n) {
                        NameStyle::Shorthand => {
                            out.push('.');
                            out.push_str(n);
                        }
                        st => {
                            out.push('[');
                            let esc = sp.esc;
                            quote(n, st == NameStyle::Double, esc, &mut sp.rng, out);
                            out.push(']');
                        }
                    },
                }
            }
        }
    }
}

fn func(f: &FuncCall, sp: &mut Spelling, out: &mut String) {
    out.push_str(&f.name);
    out.push('(');
    sp.s(out);
    for (i, a) in f.args.iter().enumerate() {
        if i > 0 {
            sp.s(out);
            out.push(',');
            sp.s(out);
        }
        match a {
            Arg::Lit(l) => literal(l, sp, out),
            Arg::Query(q) => query(q, sp, out),
            Arg::Logical(o) => or(o, sp, out),
            Arg::Func(g) => func(g, sp, out),
        }
    }
    sp.s(out);
    out.push(')');
}

#[cfg(test)]
mod tests {
    use super::*;
    use crate::parse::{analyze, Class};
    #[test]
    fn render_parse_roundtrip() {
        let mut rng = Rng::new(7);
        for i in 0..3000 {
            let q = crate::gen::random_query(&mut rng, &crate::gen::QueryCfg::default());
            let mut sp = if i % 3 == 0 { Spelling::canonical() } else { Spelling::random(&mut rng) };
            sp.filter_parens = false;
            sp.extra_parens = 0;
            let s = render(&q, &mut sp);
            let p = analyze(&s);
            assert!(p.ast.is_some(), "did not parse: {} ({:?})", s, p.class);
            assert_eq!(p.ast.as_ref().unwrap(), &normalize(&q), "{}", s);
            assert!(!matches!(p.class, Class::Invalid(_)), "{} {:?}", s, p.class);
        }
    }
    /// the parser turns redundant parentheses into Paren nodes only when rendered with
    /// extra_parens; tests use extra_parens = 0 for roundtrip. Args that are single tests become
    /// Arg::Query/Func.
    fn normalize(q: &Query) -> Query {
        q.clone()
    }
}
