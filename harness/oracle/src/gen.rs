//! Workload generators: documents (exhaustive small trees, curated hostile, random) and queries
//! (selector pool for exhaustive enumeration, random well-typed ASTs).

use crate::ast::*;
use crate::json::*;
use crate::rng::Rng;

// ---------------------------------------------------------------------------------------------
// documents

pub fn small_leaves() -> Vec<J> {
    vec![J::Null, J::Bool(true), J::int(0), J::int(1), J::float(1.5), J::str(""), J::str("a")]
}

/// All JSON values with exactly `n` nodes over the given leaves and keys (object members are
/// built in key order, which is also the order serde_json's map enumerates them).
pub fn enum_docs_exact(n: usize, leaves: &[J], keys: &[&str], memo: &mut Vec<Option<Vec<J>>>) -> Vec<J> {
    if n == 0 {
        return vec![];
    }
    if memo.len() <= n {
        memo.resize(n + 1, None);
    }
    if let Some(v) = &memo[n] {
        return v.clone();
    }
    let mut out = vec![];
    if n == 1 {
        out.extend(leaves.iter().cloned());
        out.push(J::Arr(vec![]));
        out.push(J::Obj(vec![]));
    } else {
        // arrays: ordered sequences of children whose sizes sum to n-1
        for parts in compositions(n - 1, 3) {
            let mut seqs: Vec<Vec<J>> = vec![vec![]];
            for p in &parts {
                let opts = enum_docs_exact(*p, leaves, keys, memo);
                let mut next = vec![];
                for s in &seqs {
                    for o in &opts {
                        let mut t = s.clone();
                        t.push(o.clone());
                        next.push(t);
                    }
                }
                seqs = next;
            }
            for s in seqs {
                out.push(J::Arr(s));
            }
        }
        // objects: k distinct keys in key order, children sizes sum to n-1
        for parts in compositions(n - 1, keys.len().min(3)) {
            let k = parts.len();
            for ks in key_subsets(keys, k) {
                let mut seqs: Vec<Vec<(String, J)>> = vec![vec![]];
                for (i, p) in parts.iter().enumerate() {
                    let opts = enum_docs_exact(*p, leaves, keys, memo);
                    let mut next = vec![];
                    for s in &seqs {
                        for o in &opts {
                            let mut t = s.clone();
                            t.push((ks[i].to_string(), o.clone()));
                            next.push(t);
                        }
                    }
                    seqs = next;
                }
                for s in seqs {
                    out.push(J::Obj(s));
                }
            }
        }
    }
    memo[n] = Some(out.clone());
    out
}

fn compositions(total: usize, max_parts: usize) -> Vec<Vec<usize>> {
    fn go(total: usize, parts_left: usize, cur: &mut Vec<usize>, out: &mut Vec<Vec<usize>>) {
        if total == 0 {
            if !cur.is_empty() {
                out.push(cur.clone());
            }
            return;
        }
        if parts_left == 0 {
            return;
        }
        for first in 1..=total {
            cur.push(first);
            go(total - first, parts_left - 1, cur, out);
            cur.pop();
        }
    }
    let mut out = vec![];
    go(total, max_parts, &mut vec![], &mut out);
    out
}

fn key_subsets<'a>(keys: &[&'a str], k: usize) -> Vec<Vec<&'a str>> {
    let mut out = vec![];
    let n = keys.len();
    for mask in 0u32..(1 << n) {
        if mask.count_ones() as usize == k {
            out.push((0..n).filter(|i| mask & (1 << i) != 0).map(|i| keys[i]).collect());
        }
    }
    out
}

pub fn enum_docs_upto(n: usize, leaves: &[J], keys: &[&str]) -> Vec<J> {
    let mut memo = vec![];
    let mut out = vec![];
    for i in 1..=n {
        out.extend(enum_docs_exact(i, leaves, keys, &mut memo));
    }
    out
}

/// member names that stress path rendering, quoting and lookups
pub fn hostile_keys() -> Vec<String> {
    let mut v: Vec<String> = [
        "", " ", "a", "b", "0", "1", "-1", "01", "a b", "a.b", "a'b", "'", "''", "'a'", "\"a\"", "\"", "a\"b", "\\", "a\\b", "\\n", "/", "a/b", "~", "~0", "~1", "a~b", "%", "*", "$", "@", "[0]",
        "\u{8}", "\t", "\n", "\u{c}", "\r", "\u{1}", "\u{1f}", "\u{0}", "\u{7f}", "\u{e9}", "\u{263a}", "\u{1d11e}", "\u{ffff}", "e\u{301}", "\u{a0}b", "b\u{a0}", "\u{85}", "\u{2028}", "\u{3000}x",
        "length", "true", "null", "and", "_", "_1", "A", "Z9", "gr\u{f6}\u{df}e\\breite", "\u{446}\u{435}\u{43d}\u{430}/\u{448}\u{442}", "\u{e9}\\", "/\u{1f600}",
    ]
    .iter()
    .map(|s| s.to_string())
    .collect();
    v.push("k".repeat(300));
    // short names dense in characters whose Normalized Path escape is six times as long
    v.push("\u{1}".repeat(11));
    v.push("\u{1}\u{b}\u{1f}\u{0}\u{e}\u{2}\u{3}\u{4}\u{5}".to_string());
    v.push("\u{1f}".repeat(24));
    // names that look like escapes: a literal backslash followed by escape letters / hex digits
    for s in ["caf\\u00e9", "C:\\users\\u0041dmin", "a\\nb", "\\t", "\\'", "\\\"", "\\/", "\\u12", "\\uZZZZ", "\\ud83d\\ude00", "\\u0000", "\\\\u0041", "x\\u0041\\", "\\b\\f\\r"] {
        v.push(s.to_string());
    }
    // long names: an escapable character after multi-byte ones, beyond 32 / 64 bytes
    v.push(format!("\u{e9}{} it's here", "x".repeat(36)));
    v.push(format!("{}\u{1f600}\\tail'\u{1}", "y".repeat(70)));
    v
}

pub fn curated_docs() -> Vec<J> {
    let o = |v: Vec<(&str, J)>| J::Obj(v.into_iter().map(|(k, v)| (k.to_string(), v)).collect());
    let a = |v: Vec<J>| J::Arr(v);
    let i = J::int;
    let s = J::str;
    let mut docs = vec![
        // scalars and empties at the root
        J::Null,
        J::Bool(false),
        i(0),
        J::float(-0.0),
        s(""),
        s("x"),
        a(vec![]),
        o(vec![]),
        // repeated equal subtrees: value equality must not stand in for identity
        a(vec![o(vec![("a", i(1))]), o(vec![("a", i(1))]), o(vec![("a", i(1))])]),
        o(vec![("a", a(vec![i(1), i(1)])), ("b", a(vec![i(1), i(1)]))]),
        a(vec![a(vec![i(1), i(2)]), a(vec![i(1), i(2)])]),
        // numeric-looking keys, index/name confusion
        o(vec![("0", s("zero")), ("1", s("one")), ("-1", s("m1")), ("a", a(vec![s("x"), s("y")]))]),
        a(vec![o(vec![("0", i(7))]), a(vec![i(8)])]),
        // nested arrays
        a(vec![a(vec![a(vec![i(1), i(2)]), a(vec![i(3)])]), a(vec![a(vec![]), i(4)]), i(5)]),
        // int/float twins and falsy members
        o(vec![("i", i(1)), ("f", J::float(1.0)), ("z", i(0)), ("nz", J::float(-0.0)), ("e", s("")), ("n", J::Null), ("t", J::Bool(false)), ("ea", a(vec![])), ("eo", o(vec![]))]),
        a(vec![J::Null, J::Bool(false), i(0), s(""), a(vec![]), o(vec![]), o(vec![("a", J::Null)]), o(vec![("a", J::Bool(false))]), o(vec![("a", a(vec![]))]), o(vec![("a", o(vec![]))]), o(vec![("a", s(""))]), o(vec![("a", i(0))])]),
        // the RFC examples' documents
        o(vec![("o", o(vec![("j", i(1)), ("k", i(2))])), ("a", a(vec![i(5), i(3), a(vec![o(vec![("j", i(4))]), o(vec![("k", i(6))])])]))]),
        o(vec![
            ("a", a(vec![i(3), i(5), i(1), i(2), i(4), i(6), o(vec![("b", s("j"))]), o(vec![("b", s("k"))]), o(vec![("b", o(vec![]))]), o(vec![("b", s("kilo"))])])),
            ("o", o(vec![("p", i(1)), ("q", i(2)), ("r", i(3)), ("s", i(5)), ("t", o(vec![("u", i(6))]))])),
            ("e", s("f")),
        ]),
        // strings for functions
        a(vec![s(""), s("a"), s("ab"), s("abc"), s("\u{1f600}b"), s("e\u{301}"), s("A"), s("aXb"), s("a\nb"), i(3), J::Null, a(vec![s("a")]), o(vec![("a", s("a"))])]),
    ];
    // a wide object with every hostile key, nested under a plain key and under an array
    let hk = hostile_keys();
    let wide = J::Obj(hk.iter().enumerate().map(|(n, k)| (k.clone(), i(n as i64))).collect());
    docs.push(wide.clone());
    docs.push(o(vec![("x", a(vec![wide.clone(), i(1)]))]));
    // deep nests
    let mut deep = i(1);
    for d in 0..40 {
        deep = if d % 2 == 0 { a(vec![deep, i(d)]) } else { o(vec![("a", deep), ("b", i(d))]) };
    }
    docs.push(deep);
    // wide array
    docs.push(a((0..200).map(i).collect()));
    docs
}

/// strings from many Unicode ranges and of boundary lengths
pub fn boundary_strings() -> Vec<String> {
    let mut v: Vec<String> = vec![];
    for n in [0usize, 1, 7, 8, 15, 16, 17, 23, 24, 31, 32, 33, 63, 64, 65, 127, 128, 129, 255, 256, 257, 1000, 2047, 2048, 2049, 4096, 10000] {
        v.push("a".repeat(n));
        v.push("\u{e9}".repeat(n));
        v.push(format!("{}\u{1f600}", "b".repeat(n)));
    }
    for s in ["\u{391}\u{3b2}\u{3b3}", "\u{65e5}\u{672c}\u{8a9e}", "\u{5d0}\u{5d1}", "\u{fffd}", "\u{e000}", "\u{10ffff}", "\u{d7ff}", "e\u{301}\u{301}", "\u{1f468}\u{200d}\u{1f469}", "\u{0}", "\u{7f}\u{80}", "\u{ff21}", "\u{131}\u{130}", "\u{df}", "\u{1e9e}"] {
        v.push(s.to_string());
    }
    v
}

/// documents whose sizes sit on the boundaries where size-dependent code paths usually switch:
/// wide arrays / objects, long strings, deep nests, integers near 2^53 and the i64 limits
pub fn boundary_docs() -> Vec<J> {
    let mut docs = vec![];
    let lens = [15usize, 16, 17, 31, 32, 33, 63, 64, 65, 100, 127, 128, 129, 255, 256, 257, 1000];
    for &n in &lens {
        // wide array of mixed scalars and small containers
        docs.push(J::Arr((0..n).map(|i| match i % 7 { 0 => J::int(i as i64), 1 => J::str(&format!("s{}", i)), 2 => J::Obj(vec![("a".into(), J::int(i as i64)), ("b".into(), J::Arr(vec![J::int(1), J::int(i as i64 % 3)]))]), 3 => J::Arr(vec![J::int(i as i64), J::int(0)]), 4 => J::float(i as f64 + 0.5), 5 => J::Null, _ => J::Bool(i % 2 == 0) }).collect()));
        // wide object
        docs.push(J::Obj((0..n).map(|i| (format!("k{:04}", i), if i % 5 == 0 { J::Obj(vec![("a".into(), J::int(i as i64))]) } else { J::int(i as i64) })).collect()));
    }
    // an array under a name, nested wide arrays
    docs.push(J::Obj(vec![("a".into(), J::Arr((0..70).map(J::int).collect())), ("b".into(), J::Arr((0..17).map(|i| J::Arr((0..i).map(J::int).collect())).collect()))]));
    // long and unusual strings as values and as member names
    let bs = boundary_strings();
    docs.push(J::Arr(bs.iter().map(|s| J::Str(s.clone())).collect()));
    docs.push(J::Obj(bs.iter().filter(|s| !s.is_empty()).map(|s| (s.clone(), J::Str(s.clone()))).collect::<Vec<_>>()));
    // numbers at the edges
    let m = 9007199254740991i64;
    docs.push(J::Arr(vec![J::int(m), J::int(m - 1), J::int(-m), J::int(m + 1), J::int(i64::MAX), J::int(i64::MIN), J::float(9007199254740992.0), J::float(1e308), J::float(-1e308), J::float(5e-324), J::float(0.1 + 0.2), J::float(0.3), J::int(1 << 31), J::int(-(1 << 31)), J::int((1 << 32) + 1), J::float(4294967296.5)]));
    // deep nests of both kinds
    for depth in [16usize, 31, 32, 33, 64, 100, 127, 128, 129, 130, 200, 300] {
        let mut d = J::Obj(vec![("a".into(), J::int(1)), ("b".into(), J::Arr(vec![J::int(1), J::int(2)]))]);
        for i in 0..depth {
            d = if i % 2 == 0 { J::Obj(vec![("a".into(), d), ("c".into(), J::int(i as i64))]) } else { J::Arr(vec![J::int(i as i64), d]) };
        }
        docs.push(d);
    }
    docs
}

/// documents too large for the families that convert a document per case: a 100 003-element
/// array (six-digit indices) and an object with 300 member names that all need escaping
pub fn huge_docs() -> Vec<J> {
    vec![
        J::Arr((0..100_003).map(J::int).collect()),
        J::Obj(vec![("rows".into(), J::Arr((0..100_003).map(|i| if i % 50_000 == 0 { J::Obj(vec![("a".into(), J::int(i))]) } else { J::int(i) }).collect()))]),
        J::Obj((0..300).map(|i| (format!("k'{}\\{}", i, if i % 3 == 0 { "\t" } else { "" }), J::Arr(vec![J::int(i), J::Obj(vec![(format!("n'{}", i), J::int(i))])]))).collect()),
    ]
}
pub fn huge_queries() -> Vec<&'static str> {
    vec!["$[*]", "$[100000]", "$[99999:100002]", "$[-1]", "$[-3:]", "$[::25000]", "$[?@ >= 99999]", "$[?@ == 100000]", "$.rows[100000]", "$.rows[-2]", "$.rows[?@.a]", "$..a", "$.rows[99998:100001:1]", "$.*", "$..*", "$.*[1].*", "$[?@[0] > 290]", "$..[0]", "$[4000:100:-3]", "$[:10:-2]", "$[-1:-4000:-5]", "$[90000:10:-7]", "$[::-2]", "$[70000:3000:-64]", "$[3:99000:11]", "$.rows[50000:100:-3]", "$[0:3, *]", "$[1:4, 2:600]", "$[*, 0:3]"]
}

/// queries that aim at those boundaries
pub fn boundary_queries() -> Vec<&'static str> {
    vec![
        "$[*]", "$[15]", "$[16]", "$[17]", "$[63]", "$[64]", "$[65]", "$[-1]", "$[-16]", "$[-17]", "$[-64]", "$[-65]", "$[15:18]", "$[62:66]", "$[::16]", "$[::17]", "$[::-16]", "$[16::-1]", "$[-17:]", "$[:17]", "$[:-64]", "$[255:258]", "$[999]", "$[1000]",
        "$[?@ > 15]", "$[?@ >= 64]", "$[?@.a]", "$[?@.a > 16]", "$[?@[0] > 30]", "$[?length(@) > 16]", "$[?length(@) == 64]", "$[?length(@) >= 255]", "$[?count(@.*) > 1]", "$[?match(@, 's1.*')]", "$[?search(@, '[0-9]{3}')]", "$..a", "$..b[1]", "$..[0]", "$..*",
        "$.k0016", "$.k0064", "$['k0255']", "$.*.a", "$[?@ == 9007199254740991]", "$[?@ > 9007199254740990]", "$[?@ < -9007199254740990]", "$[?@ == 0.3]", "$[?@ > 1e307]", "$.a[16:18]", "$.a[-17]", "$.b[16][15]", "$.b[*][0]", "$.b[?length(@) > 15]",
        "$[?length(@) >= 2047]", "$[?length(@) == 2048]", "$[?length(@) == 2049]", "$[?length(@) == 4097]", "$[?length(@) > 9999]", "$[0:200,100:300].a", "$[*,*].a", "$[::-1,:][0]", "$[*,*][0]", "$[0:300,5:260].b[1]", "$[0:260,0:260,::-1].a", "$.*.a", "$[*,*]",
        "$[0,16,17,64]", "$[*,0]", "$..[-1]", "$..c", "$..a.a.a", "$[?@ == 'aaaaaaaaaaaaaaaa']", "$[?length(@) == 16 || length(@) == 17]",
    ]
}

/// characters at the edges of the ranges of RFC 9535's grammar and characters that tools tend to
/// treat specially (DEL and C1 controls, no-break / zero-width / line-separator characters, the
/// byte order mark, non-characters, the surrogate neighbours, the last code point)
pub fn notable_chars() -> Vec<char> {
    vec![
        '\u{20}', '\u{21}', '\u{7e}', '\u{7f}', '\u{80}', '\u{85}', '\u{9f}', '\u{a0}', '\u{ad}', '\u{200b}', '\u{2028}', '\u{2029}', '\u{2060}', '\u{3000}', '\u{d7ff}', '\u{e000}', '\u{feff}', '\u{fffd}', '\u{fffe}', '\u{ffff}', '\u{10000}',
        '\u{1f600}', '\u{10fffe}', '\u{10ffff}', '\u{0}', '\u{1f}',
        // characters whose low byte is a blank or a syntax character (truncating casts)
        '\u{10d}', '\u{420}', '\u{4e0a}', '\u{4e09}', '\u{120}', '\u{12e}', '\u{15b}', '\u{127}', '\u{124}', '\u{140}', '\u{12a}', '\u{122}', '\u{15c}', '\u{10020}',
    ]
}

/// every notable character at every kind of position of a query: raw inside quoted names and
/// string literals, in shorthand names, and outside any token (before `$`, after the query,
/// between tokens). The strings are candidates: the recognisers decide which are valid.
pub fn notable_char_strings() -> Vec<String> {
    let mut v = vec![];
    for c in notable_chars() {
        for t in [
            "$['{}']", "$[\"{}\"]", "$['a{}b']", "$['{}{}']", "$..['{}']", "$['a','{}']", "$[?@.a == '{}']", "$[?@.a == \"x{}\"]", "$[?@['{}'] == 1]", "$[?match(@.a, '{}')]", "$[?length('{}') == 1]", "$.{}", "$.a{}", "$.{}a", "$..{}", "$.a.{}.b", "$[?@.{} == 1]",
            "$[?$.{}]", "{}$.a", "$.a{}", "{}$", "${}", "${}.a", "$[{}0]", "$[0{}]", "$[0{}:1]", "$[?{}@.a]", "$[?@.a{}==1]", "$[?@.a=={}1]", "$[?@.a &&{}@.b]", "$[?length({}@.a) == 1]", "$[?length(@.a{}) == 1]", "$.a{}.b", "$.a.{}b", "$[{}'a']", "$['a'{}]", "$[{}]",
        ] {
            v.push(t.replace("{}", &c.to_string()));
        }
    }
    v.sort();
    v.dedup();
    v
}

/// long valid queries made of multi-byte characters (2, 3 and 4 bytes per character) shifted by
/// 0..3 ASCII bytes, so that every power-of-two byte offset up to 4096 falls inside a character in
/// some of them - for every token kind that can be long
pub fn long_multibyte_queries() -> Vec<String> {
    let mut v = vec![];
    for (ch, n) in [('\u{e9}', 2300usize), ('\u{20ac}', 1500), ('\u{1f600}', 1100), ('\u{44f}', 300), ('\u{65e5}', 200)] {
        for pad in 0..4usize {
            let body = format!("{}{}", "a".repeat(pad), ch.to_string().repeat(n));
            v.push(format!("$['{}']", body));
            v.push(format!("$[\"{}\"]", body));
            v.push(format!("$.{}", body));
            v.push(format!("$..{}", body));
            v.push(format!("$[?@.t == '{}']", body));
            v.push(format!("$[?@['{}'] == '{}' || @.a]", body, body));
            v.push(format!("$[?length('{}') > 1]", body));
            v.push(format!("$[?search(@.t, '{}')]", body));
            v.push(format!("$.a['{}', 'b'].c", body));
        }
    }
    v
}

/// conjunction / disjunction shapes of 3 and 4 operands placed in every context a logical
/// expression can occur in (top-level filter, filter inside a function argument, nested filters,
/// descendant segment, union member)
pub fn composition_queries() -> Vec<String> {
    let formulas = [
        "@.x && @.y == 1 && @.z",
        "@.x || @.y == 1 && @.z || @.w != 'q'",
        "@.x && @.y == 1 && @.z && @.w != 'q'",
        "@.x || @.y == 1 || @.z",
        "!@.x && !@.y && @.z",
        "(@.x || @.y == 1) && @.z && @.w != 'q'",
        "@.x && (@.y == 1 || @.z) && !(@.w != 'q' && @.x)",
    ];
    let contexts = [
        "$[?F]", "$[?count(@.a[?F]) == 1]", "$[?value(@.a[?F]) == 1]", "$[?length(value(@[?F])) > 0]", "$[?match(value(@.a[?F]), 'x')]", "$[?@.a[?F]]", "$[?@[?@[?F]]]", "$[?count(@.a[?count(@.b[?F]) > 0]) > 0]", "$..[?F]", "$[0, ?F]", "$[?F, ?F]",
        "$[?search(value(@..a[?F]), 'x') || count($.b[?F]) > 1]", "$.a[?F].b[?F]",
    ];
    let mut v = vec![];
    for c in contexts {
        for f in formulas {
            v.push(c.replace('F', f));
        }
    }
    v
}

/// every shape of non-singular segment where only a singular query (a value) may stand: function
/// arguments of value type and comparison operands (the recognisers decide; most are invalid)
pub fn nonsingular_in_value_position() -> Vec<String> {
    let shapes = ["[-1:]", "[0:1]", "[:1]", "[:]", "[*]", ".*", "..a", "[0,1]", "['a','b']", "[?@.a]", "[-1::1]", "[ -1 : ]", "[1:2:1]", "[::]", "[-1::]", "[0:1:1]", "[-1:0]", "[-2:]", "[0]", "[-1]", "['a']", ".a", "[0][-1:]", ".a[*].b", "[-1:][0]"];
    let templates = [
        "$[?length(@{}) == 1]", "$[?match(@.a{}, '.*')]", "$[?search($['list']{}, @.a)]", "$[?match(@.a, @.b{})]", "$[?count(@.*) == length(@{})]", "$[?@{} == 1]", "$[?1 < @.a{}]", "$[?@.a == ${}]", "$[?value(@{}) == 1]", "$[?count(@{}) == 1]",
        "$[?length(value(@{})) == 1]", "$[?@{}]", "$[?!@{} && @.a{} != null]",
    ];
    let mut v = vec![];
    for t in templates {
        for s in shapes {
            v.push(t.replace("{}", s));
        }
    }
    v
}

/// a blank at every inner position of number literals, indices and slice bounds (a number is one
/// token: no blank may stand inside it)
pub fn blanks_inside_numbers() -> Vec<String> {
    let nums = ["1e2", "25E3", "1E+2", "-3e1", "1.5", "-0.5", "1.5e-2", "12", "-12", "-0", "100.0"];
    let mut v = vec![];
    for n in nums {
        let cs: Vec<char> = n.chars().collect();
        for pos in 1..cs.len() {
            for b in [" ", "\t", "\n", "\r"] {
                let broken: String = cs[..pos].iter().collect::<String>() + b + &cs[pos..].iter().collect::<String>();
                for t in ["$[?@.a == {}]", "$[?{} < @.a]", "$[?length(@.a) == {}]", "$[?@.a == 1 && @.b >= {}]"] {
                    v.push(t.replace("{}", &broken));
                }
                if !n.contains('.') && !n.contains('e') && !n.contains('E') {
                    for t in ["$[{}]", "$[{}:]", "$[:{}]", "$[::{}]", "$[0, {}]", "$[?@[{}] == 1]"] {
                        v.push(t.replace("{}", &broken));
                    }
                }
            }
        }
    }
    v
}

/// every function result as an argument of every function, at every argument position, in a
/// comparison and as a test (the recognisers decide which combinations are well-typed)
pub fn function_results_as_arguments() -> Vec<String> {
    let inner = ["length(@.a)", "count(@.*)", "value(@.a)", "match(@.a, 'x')", "search(@.a, 'x')", "match(@.a, @.b)", "count(@[?@.a])", "value(@..a)"];
    let mut v = vec![];
    for i in inner {
        for t in [
            "$[?length({}) == 1]", "$[?count({}) == 1]", "$[?value({}) == 1]", "$[?match({}, 'x')]", "$[?match(@.a, {})]", "$[?search({}, 'x')]", "$[?search(@.a, {})]", "$[?1 == count({})]", "$[?length(value({})) == 1]", "$[?count({})]", "$[?value({})]",
            "$[?{}]", "$[?!{}]", "$[?{} == true]", "$[?{} == 1]", "$[?@.a && {}]", "$[?@[?count({}) == 1]]",
        ] {
            v.push(t.replace("{}", i));
        }
    }
    v
}

/// number literals with long digit runs: integer parts of 17..30 digits before a fraction or
/// exponent, 19..45 significant digits, long zero runs, big exponents that stay finite
pub fn long_number_literal_queries() -> Vec<String> {
    let lits = [
        "12345678901234567.5", "100000000000000000000.0", "12345678901234567e3", "10000000000000000.0", "3.14159265358979323846", "0.1000000000000000055511151231257827", "1.0000000000000000000", "0.00000001234567890123456", "0.00000000000000000000001",
        "123456789012345678901234567890.5", "1.5e300", "15e299", "0.000000000000000000000000000000000000000015e340", "10e18", "1000e16", "-25E+18", "123456E15", "9007199254740991e4", "1e000001", "1.0e+0000308", "0.1e-0000300", "-0.0e99", "5e-324", "4.9e-324", "2.2250738585072011e-308",
        "1.7976931348623157e308", "0.30000000000000004", "0.299999999999999988897769753748", "9007199254740993.0", "9007199254740992.5", "-9007199254740993.25",
    ];
    let mut v = vec![];
    for l in lits {
        for t in ["$[?@.n == {}]", "$[?@.n < {}]", "$[?{} >= @.n]", "$[?length(@.s) < {}]", "$[?count(@.*) != {}]", "$[?@.n == {} || @.m == {}]", "$[?value(@.n) <= {}]"] {
            v.push(t.replace("{}", l));
        }
    }
    v
}

/// text that looks like query syntax (of this or of older / other dialects) inside quoted names
/// and string literals, where it is just text - in every place a string can stand
pub fn syntax_inside_strings() -> Vec<String> {
    let frags = [
        ".length()", ".size()", ".*~", "..", "[?(@.a)]", "[?(", "@.", "$.", "$", "@", "&&", "||", "==", "!=", "=~", "<=", " in [1]", "length(", "count(@.*)", "match(", "true", "null", "[*]", "[0]", "[1:2]", ",", ", ", "a,b", "last, first", ":", ")", "(", "]", "[", "?", "!", "<", ">", "//",
        "/*", "#", "--", ";", "{}", "{a}", "*", "..*", "['a']", "[\\\"a\\\"]", "$['a']", "a.b.c", "a b", " a", "a ", "1", "-1", "1e2", "01", "%20", "~", "^", "\\\\", "\\/",
    ];
    let templates = [
        "$['{}']", "$[\"{}\"]", "$[?@.a == '{}']", "$[?@.a != \"{}\"]", "$[?match(@.a, '{}')]", "$[?search(@.a, \"{}\")]", "$[?length(@['{}']) > 1]", "$[?match(@['{}'], 'x.z')]", "$[?search(@.p['{}'], @['{}'])]", "$[?@['{}'] == 1]", "$[?$['{}'][0] == @[\"{}\"]]", "$..['{}']",
        "$['a', '{}']", "$['{}', \"{}\"].b", "$[?count(@['{}']) == 1]", "$[?value(@..['{}']) == '{}']", "$[?length('{}') == 9]", "$[?@[?@['{}']]]", "$.a['{}'].b[?@ == '{}']",
    ];
    let mut v = vec![];
    for t in templates {
        for f in frags {
            // a fragment with a quote of the template's own kind would end the string: the
            // fragments above contain only escaped double quotes, which both kinds accept
            if t.contains("'{}'") && f.contains('\'') {
                continue;
            }
            v.push(t.replace("{}", f));
        }
    }
    v
}

/// two faults in one query that could cancel each other: a function call with one argument too
/// many (or too few, or of the wrong type) whose surplus / other argument is itself invalid in a
/// way that only a check behind the grammar catches - and the same fragments in other places
/// where a later check might never look (second operand of &&, second selector of a union,
/// the right-hand side of a comparison)
pub fn double_fault_strings() -> Vec<String> {
    let frags = [
        "@. b", "@.. b", "$. c", "@[9007199254740992]", "@[1:9007199254740992]", "@[::-9007199254740992]", "length(@.*)", "count(1)", "length (@.a)", "value(@.a, 1)", "match(@.a)", "@.a ==", "@['a\tb']", "@[01]", "@[-0]", "'\\x'", "1.", "01", "@.a.", "length(@.a,)",
        "count(@.a) ", "@[?@. b]", "value(@[?length(@.*)])", "@[1.0]", "$[?@ == 1.]",
    ];
    let templates = [
        "$[?length(@.a, {}) == 1]", "$[?length({}, @.a) == 1]", "$[?count(@.*, {}) == 1]", "$[?value(@.a, {}) == 1]", "$[?match(@.a, 'x', {})]", "$[?search({}, @.a, 'x')]", "$[?match({}, @.a, 'x')]", "$[?match(@.a, {}, 'x')]", "$[?length({}) == 1]", "$[?count({}) == 1]",
        "$[?@.a && {}]", "$[?@.a || !{}]", "$[?@.a == 1 && {} == 2]", "$[0, ?{}]", "$[?@.a, ?{}]", "$[?@.a == {}]", "$[?{} < @.a]", "$[?match(@.a, 'x') && search({}, 'y')]", "$[?length(value({})) == 1]", "$[?count(@[?{}]) > 0]",
    ];
    let mut v = vec![];
    for t in templates {
        for f in frags {
            v.push(t.replace("{}", f));
        }
    }
    v
}

/// segments with many selectors (2 .. 100): names only, indices only, mixed with slices and
/// wildcards; written out of document order and with repeats. Aimed at the wide documents of
/// `boundary_docs` (member names k0000.., arrays of >= 15 elements).
pub fn long_union_queries(seed: u64) -> Vec<Query> {
    let mut out = vec![];
    let mut rng = Rng::stream(seed, 77);
    for &k in &[2usize, 3, 5, 8, 15, 16, 17, 31, 32, 33, 64, 65, 100] {
        for kind in 0..4 {
            let mut sels = vec![];
            for p in 0..k {
                let name = |r: &mut Rng| Selector::Name(format!("k{:04}", r.below(15)));
                let index = |r: &mut Rng| Selector::Index(r.below(30) as i64 - 15);
                sels.push(match kind {
                    0 => name(&mut rng),
                    1 => index(&mut rng),
                    2 => {
                        // descending names, then one repeat in the middle
                        if p == k / 2 { Selector::Name("k0000".into()) } else { Selector::Name(format!("k{:04}", (k - 1 - p) % 15)) }
                    }
                    _ => match rng.below(6) {
                        0 => name(&mut rng),
                        1 | 2 => index(&mut rng),
                        3 => Selector::Slice(Some(rng.below(8) as i64), Some(rng.below(16) as i64), Some([1, 2, -1, 3][rng.below(4) as usize])),
                        4 => Selector::Wildcard,
                        _ => Selector::Name("a".into()),
                    },
                });
            }
            out.push(Query::root(vec![Segment::children(sels.clone())]));
            out.push(Query::root(vec![Segment::children(sels.clone()), Segment::child(Selector::Name("a".into()))]));
            if k <= 33 {
                out.push(Query::root(vec![Segment { descendant: true, selectors: sels.clone() }]));
                out.push(Query::root(vec![Segment::child(Selector::Wildcard), Segment::children(sels)]));
            }
        }
    }
    out
}

#[derive(Debug, Clone)]
pub struct DocCfg {
    pub max_depth: usize,
    pub max_nodes: usize,
    pub keys: Vec<String>,
    pub strings: Vec<String>,
    pub max_width: usize,
}

impl Default for DocCfg {
    fn default() -> Self {
        DocCfg {
            max_depth: 5,
            max_nodes: 40,
            keys: ["a", "b", "c", "d", "0", "x y"].iter().map(|s| s.to_string()).collect(),
            strings: ["", "a", "b", "ab", "abc", "A", "x", "1", "\u{e9}", "\u{1f600}"].iter().map(|s| s.to_string()).collect(),
            max_width: 4,
        }
    }
}

pub fn random_leaf(rng: &mut Rng, cfg: &DocCfg) -> J {
    match rng.below(12) {
        0 => J::Null,
        1 => J::Bool(true),
        2 => J::Bool(false),
        3 | 4 | 5 => J::int(rng.range(-2, 4)),
        6 => J::float([0.5, 1.0, 1.5, -0.0, 2.0, 3.25][rng.below(6) as usize]),
        7 | 8 | 9 => J::Str(rng.pick(&cfg.strings).clone()),
        10 => J::Arr(vec![]),
        _ => J::Obj(vec![]),
    }
}

pub fn random_doc(rng: &mut Rng, cfg: &DocCfg) -> J {
    let mut budget = 1 + rng.below(cfg.max_nodes as u64) as usize;
    random_doc_in(rng, cfg, cfg.max_depth, &mut budget)
}

fn random_doc_in(rng: &mut Rng, cfg: &DocCfg, depth: usize, budget: &mut usize) -> J {
    if *budget > 0 {
        *budget -= 1;
    }
    if depth == 0 || *budget == 0 || rng.chance(1, 4) {
        return random_leaf(rng, cfg);
    }
    let width = 1 + rng.below(cfg.max_width as u64) as usize;
    if rng.chance(1, 2) {
        let mut v = vec![];
        for _ in 0..width {
            if *budget == 0 {
                break;
            }
            v.push(random_doc_in(rng, cfg, depth - 1, budget));
        }
        J::Arr(v)
    } else {
        let mut v: Vec<(String, J)> = vec![];
        for _ in 0..width {
            if *budget == 0 {
                break;
            }
            let k = rng.pick(&cfg.keys).clone();
            if v.iter().any(|(k2, _)| *k2 == k) {
                continue;
            }
            v.push((k, random_doc_in(rng, cfg, depth - 1, budget)));
        }
        J::Obj(v)
    }
}

// ---------------------------------------------------------------------------------------------
// queries

fn cmp_basic(lhs: Comparable, op: CmpOp, rhs: Comparable) -> Or {
    Or::single(Basic::Cmp { lhs, op, rhs })
}
pub fn cur_name(n: &str) -> Comparable {
    Comparable::Singular { root: Root::Current, steps: vec![SingStep::Name(n.to_string())] }
}
pub fn cur() -> Comparable {
    Comparable::Singular { root: Root::Current, steps: vec![] }
}
pub fn root_name(n: &str) -> Comparable {
    Comparable::Singular { root: Root::Root, steps: vec![SingStep::Name(n.to_string())] }
}
pub fn lit_int(i: i64) -> Comparable {
    Comparable::Lit(Literal::int(i))
}
pub fn lit_str(s: &str) -> Comparable {
    Comparable::Lit(Literal::Str(s.to_string()))
}
pub fn name_seg(n: &str) -> Segment {
    Segment::child(Selector::Name(n.to_string()))
}
pub fn test_query(q: Query) -> Or {
    Or::single(Basic::Test { not: false, test: TestExpr::Query(q) })
}

/// The selector pool of the exhaustive family E1: every selector kind, boundary indices/slices.
pub fn selector_pool() -> Vec<Selector> {
    vec![
        Selector::Name("a".into()),
        Selector::Name("b".into()),
        Selector::Index(0),
        Selector::Index(1),
        Selector::Index(-1),
        Selector::Wildcard,
        Selector::Slice(None, None, None),
        Selector::Slice(Some(1), None, None),
        Selector::Slice(None, None, Some(-1)),
        Selector::Slice(None, None, Some(2)),
        Selector::Slice(Some(-2), Some(5), None),
        Selector::Filter(test_query(Query::current(vec![name_seg("a")]))),
        Selector::Filter(cmp_basic(cur(), CmpOp::Gt, lit_int(0))),
        Selector::Filter(cmp_basic(cur(), CmpOp::Eq, root_name("a"))),
        Selector::Filter(Or::single(Basic::Test { not: true, test: TestExpr::Query(Query::current(vec![Segment::child(Selector::Wildcard)])) })),
        Selector::Filter(cmp_basic(cur_name("a"), CmpOp::Ne, lit_str("a"))),
    ]
}

#[derive(Debug, Clone)]
pub struct QueryCfg {
    pub max_segments: usize,
    pub max_selectors: usize,
    pub filter_depth: usize,
    pub names: Vec<String>,
    pub strings: Vec<String>,
    pub patterns: Vec<String>,
    pub funcs: bool,
    pub ext_funcs: bool,
    /// per-mille probability that a segment is a descendant segment
    pub desc_pm: u64,
    /// per-mille probability that a bracketed segment has more than one selector
    pub union_pm: u64,
}

impl Default for QueryCfg {
    fn default() -> Self {
        QueryCfg {
            max_segments: 4,
            max_selectors: 3,
            filter_depth: 2,
            names: ["a", "b", "c", "d", "0", "x y"].iter().map(|s| s.to_string()).collect(),
            strings: ["", "a", "b", "ab", "A", "x", "1"].iter().map(|s| s.to_string()).collect(),
            patterns: ["a", "a.*", "[ab]+", "a|b", "ab?", ".", "x", "^a", "b$", "(a|b)c", "[^a]", "a{2}", "\\d"].iter().map(|s| s.to_string()).collect(),
            funcs: true,
            ext_funcs: false,
            desc_pm: 200,
            union_pm: 150,
        }
    }
}

pub fn random_int(rng: &mut Rng) -> i64 {
    match rng.below(20) {
        0 => 9007199254740991,
        1 => -9007199254740991,
        2 => rng.range(-1000, 1000),
        _ => rng.range(-4, 5),
    }
}

pub fn random_selector(rng: &mut Rng, cfg: &QueryCfg, fdepth: usize) -> Selector {
    match rng.below(if fdepth > 0 { 12 } else { 9 }) {
        0 | 1 | 2 => Selector::Name(rng.pick(&cfg.names).clone()),
        3 | 4 => Selector::Index(random_int(rng)),
        5 | 6 => Selector::Wildcard,
        7 | 8 => {
            let o = |rng: &mut Rng| if rng.chance(1, 3) { None } else { Some(random_int(rng)) };
            let a = o(rng);
            let b = o(rng);
            let c = if rng.chance(1, 2) { None } else { Some(rng.range(-3, 3)) };
            Selector::Slice(a, b, c)
        }
        _ => Selector::Filter(random_or(rng, cfg, fdepth - 1, 2)),
    }
}

pub fn random_segment(rng: &mut Rng, cfg: &QueryCfg, fdepth: usize) -> Segment {
    let descendant = rng.below(1000) < cfg.desc_pm;
    let n = if rng.below(1000) < cfg.union_pm { 2 + rng.below((cfg.max_selectors.max(2) - 1) as u64) as usize } else { 1 };
    Segment { descendant, selectors: (0..n).map(|_| random_selector(rng, cfg, fdepth)).collect() }
}

pub fn random_query(rng: &mut Rng, cfg: &QueryCfg) -> Query {
    let n = rng.below(cfg.max_segments as u64 + 1) as usize;
    Query::root((0..n).map(|_| random_segment(rng, cfg, cfg.filter_depth)).collect())
}

fn random_singular(rng: &mut Rng, cfg: &QueryCfg) -> Comparable {
    let root = if rng.chance(1, 4) { Root::Root } else { Root::Current };
    let n = rng.below(3) as usize;
    Comparable::Singular {
        root,
        steps: (0..n).map(|_| if rng.chance(2, 3) { SingStep::Name(rng.pick(&cfg.names).clone()) } else { SingStep::Index(rng.range(-2, 2)) }).collect(),
    }
}

pub fn random_literal(rng: &mut Rng, cfg: &QueryCfg) -> Literal {
    match rng.below(10) {
        0 => Literal::Null,
        1 => Literal::True,
        2 => Literal::False,
        3 | 4 | 5 => Literal::int(rng.range(-2, 4)),
        6 => Literal::num_text(*rng.pick(&["1.5", "1.0", "0.5", "1e0", "2E0", "-0", "0.0", "3.25", "1e-1"][..])),
        _ => Literal::Str(rng.pick(&cfg.strings).clone()),
    }
}

fn random_filter_query(rng: &mut Rng, cfg: &QueryCfg, fdepth: usize) -> Query {
    let root = if rng.chance(1, 5) { Root::Root } else { Root::Current };
    let n = rng.below(3) as usize;
    Query { root, segments: (0..n).map(|_| random_segment(rng, cfg, fdepth)).collect() }
}

fn singular_as_query(c: &Comparable) -> Query {
    match c {
        Comparable::Singular { root, steps } => Query {
            root: *root,
            segments: steps
                .iter()
                .map(|s| match s {
                    SingStep::Name(n) => Segment::child(Selector::Name(n.clone())),
                    SingStep::Index(i) => Segment::child(Selector::Index(*i)),
                })
                .collect(),
        },
        _ => unreachable!(),
    }
}

/// a ValueType argument: literal, singular query, or value-typed function
fn random_value_arg(rng: &mut Rng, cfg: &QueryCfg, fdepth: usize) -> Arg {
    match rng.below(6) {
        0 => Arg::Lit(random_literal(rng, cfg)),
        1 if fdepth > 0 => Arg::Func(random_value_func(rng, cfg, fdepth - 1)),
        _ => Arg::Query(singular_as_query(&random_singular(rng, cfg))),
    }
}

fn random_value_func(rng: &mut Rng, cfg: &QueryCfg, fdepth: usize) -> FuncCall {
    match rng.below(3) {
        0 => FuncCall { name: "length".into(), args: vec![random_value_arg(rng, cfg, fdepth)] },
        1 => FuncCall { name: "count".into(), args: vec![Arg::Query(random_filter_query(rng, cfg, fdepth))] },
        _ => FuncCall { name: "value".into(), args: vec![Arg::Query(random_filter_query(rng, cfg, fdepth))] },
    }
}

fn random_logical_func(rng: &mut Rng, cfg: &QueryCfg, fdepth: usize) -> FuncCall {
    if cfg.ext_funcs && rng.chance(1, 2) {
        let name = *rng.pick(&["in", "nin", "none_of", "any_of", "subset_of"]);
        return FuncCall { name: name.into(), args: vec![random_value_arg(rng, cfg, fdepth), random_value_arg(rng, cfg, fdepth)] };
    }
    let name = if rng.chance(1, 2) { "match" } else { "search" };
    let pat = if rng.chance(4, 5) { Arg::Lit(Literal::Str(rng.pick(&cfg.patterns).clone())) } else { random_value_arg(rng, cfg, fdepth) };
    FuncCall { name: name.into(), args: vec![random_value_arg(rng, cfg, fdepth), pat] }
}

fn random_comparable(rng: &mut Rng, cfg: &QueryCfg, fdepth: usize) -> Comparable {
    match rng.below(8) {
        0 | 1 | 2 => Comparable::Lit(random_literal(rng, cfg)),
        3 if cfg.funcs => Comparable::Func(random_value_func(rng, cfg, fdepth)),
        _ => random_singular(rng, cfg),
    }
}

pub fn random_basic(rng: &mut Rng, cfg: &QueryCfg, fdepth: usize) -> Basic {
    match rng.below(10) {
        0 | 1 | 2 | 3 => Basic::Cmp { lhs: random_comparable(rng, cfg, fdepth), op: *rng.pick(&CmpOp::ALL), rhs: random_comparable(rng, cfg, fdepth) },
        4 | 5 | 6 => Basic::Test { not: rng.chance(1, 3), test: TestExpr::Query(random_filter_query(rng, cfg, fdepth)) },
        7 if cfg.funcs => Basic::Test { not: rng.chance(1, 3), test: TestExpr::Func(random_logical_func(rng, cfg, fdepth)) },
        8 if fdepth > 0 => Basic::Paren { not: rng.chance(1, 2), inner: random_or(rng, cfg, fdepth - 1, 2) },
        _ => Basic::Cmp { lhs: random_singular(rng, cfg), op: *rng.pick(&CmpOp::ALL), rhs: Comparable::Lit(random_literal(rng, cfg)) },
    }
}

pub fn random_or(rng: &mut Rng, cfg: &QueryCfg, fdepth: usize, width: u64) -> Or {
    let n = 1 + rng.below(width) as usize;
    Or((0..n)
        .map(|_| {
            let m = 1 + rng.below(width) as usize;
            And((0..m).map(|_| random_basic(rng, cfg, fdepth)).collect())
        })
        .collect())
}

/// token list (harvested from the ABNF terminals) for mutation and token-soup inputs
pub fn tokens() -> Vec<&'static str> {
    vec![
        "$", "@", ".", "..", "[", "]", "*", ",", ":", "?", "(", ")", "!", "==", "!=", "<", "<=", ">", ">=", "&&", "||", "'", "\"", "\\", "\\u", "0", "1", "-", "-0", "01", "9007199254740991", "9007199254740992",
        "a", "b", "_", "e", "E", "+", "1.5", "1e2", "true", "false", "null", "length", "count", "match", "search", "value", " ", "\t", "\n", "\r", "'a'", "\"a\"", "D800", "DC00", "/",
    ]
}

/// single-edit mutants of a string (character and token level)
pub fn mutate(s: &str, rng: &mut Rng) -> String {
    let chars: Vec<char> = s.chars().collect();
    let toks = tokens();
    let pos = rng.below(chars.len() as u64 + 1) as usize;
    let mut out: Vec<char> = chars.clone();
    match rng.below(7) {
        0 if !chars.is_empty() => {
            out.remove(pos.min(chars.len() - 1));
        }
        1 => {
            let t = *rng.pick(&toks);
            for (k, c) in t.chars().enumerate() {
                out.insert(pos + k, c);
            }
        }
        2 if !chars.is_empty() => {
            let p = pos.min(chars.len() - 1);
            out.remove(p);
            let t = *rng.pick(&toks);
            for (k, c) in t.chars().enumerate() {
                out.insert(p + k, c);
            }
        }
        3 if chars.len() >= 2 => {
            let p = pos.min(chars.len() - 2);
            out.swap(p, p + 1);
        }
        4 => {
            out.insert(pos, *rng.pick(&[' ', '\t', '\n', '\r']));
        }
        5 if !chars.is_empty() => {
            // duplicate a character
            let p = pos.min(chars.len() - 1);
            out.insert(p, chars[p]);
        }
        _ => {
            let c = *rng.pick(&['\u{0}', '\u{1f}', '\u{7f}', '\u{a0}', '\u{d7ff}', '\u{10ffff}', 'A', '9', '\'', '"', '\\']);
            out.insert(pos, c);
        }
    }
    out.into_iter().collect()
}

/// long member names (100..600 bytes) that are plain except for one or two special characters at a
/// random position: a long name whose only special character is a backslash, a quote, a control
/// or a multi-byte character takes a different route through an escaper that looks at a name as a
/// whole than a name that is dense in such characters
pub fn sparse_long_names(rng: &mut Rng) -> Vec<String> {
    let specials: [&str; 16] = ["\\", "'", "\"", "\u{1}", "\n", "\t", "\u{7f}", "\u{e9}", "\u{1f600}", "/", "\\t", "\\n", "\\u0041", "\\'", "\u{0}", ""];
    let mut out = vec![];
    for len in [100usize, 127, 128, 129, 160, 255, 256, 257, 300, 600] {
        for sp in specials.iter() {
            let mut chars: Vec<String> = (0..len).map(|i| ((b'a' + ((i * 7 + len + sp.len()) % 26) as u8) as char).to_string()).collect();
            let at = rng.below(len as u64) as usize;
            chars[at] = sp.to_string();
            if rng.chance(1, 3) {
                let at2 = rng.below(len as u64) as usize;
                chars[at2] = sp.to_string();
            }
            let name: String = chars.concat();
            if !out.contains(&name) {
                out.push(name);
            }
        }
    }
    out
}

/// unions of two slices with every combination of small bounds (absent, -3..4): adjacent,
/// overlapping, empty and sign-crossing pairs such as [-2:1,1:] - child and descendant form
pub fn slice_pair_queries() -> Vec<String> {
    let bounds = ["", "-3", "-2", "-1", "0", "1", "2", "4"];
    let mut out = vec![];
    for a in bounds {
        for b in bounds {
            for c in bounds {
                for d in bounds {
                    out.push(format!("[{}:{},{}:{}]", a, b, c, d));
                }
            }
        }
    }
    out
}
