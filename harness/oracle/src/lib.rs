//! Oracles for RFC 9535 written from the RFC text (see /verif/DESIGN.md 2.4). No dependency on
//! the library under test.
pub mod abnf;
pub mod ast;
pub mod eval;
pub mod gen;
pub mod json;
pub mod minire;
pub mod npath;
pub mod parse;
pub mod render;
pub mod rng;
pub mod selftest;
