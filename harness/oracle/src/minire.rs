//! A small backtracking regular-expression matcher for the pattern subset the generators emit
//! (literals, `.`, classes with ranges and negation, groups, alternation, `* + ? {m} {m,} {m,n}`,
//! escaped metacharacters, `^` and `$`). Its only purpose is to keep oracle (f) honest: wherever
//! a pattern is inside the subset, this matcher and the `regex`-crate oracle must agree.

#[derive(Debug, Clone)]
enum Node {
    Char(char),
    Any,
    Class(Vec<(char, char)>, bool),
    Group(Box<Node>),
    Alt(Vec<Node>),
    Seq(Vec<Node>),
    Rep(Box<Node>, usize, Option<usize>),
    Start,
    End,
}

struct Parser<'a> {
    s: &'a [char],
    pos: usize,
}

impl<'a> Parser<'a> {
    fn peek(&self) -> Option<char> {
        self.s.get(self.pos).copied()
    }
    fn alt(&mut self) -> Option<Node> {
        let mut alts = vec![self.seq()?];
        while self.peek() == Some('|') {
            self.pos += 1;
            alts.push(self.seq()?);
        }
        Some(if alts.len() == 1 { alts.pop().unwrap() } else { Node::Alt(alts) })
    }
    fn seq(&mut self) -> Option<Node> {
        let mut items = vec![];
        while let Some(c) = self.peek() {
            if c == '|' || c == ')' {
                break;
            }
            let atom = self.atom()?;
            items.push(self.quant(atom)?);
        }
        Some(Node::Seq(items))
    }
    fn quant(&mut self, atom: Node) -> Option<Node> {
        let mut node = atom;
        loop {
            let (min, max) = match self.peek() {
                Some('*') => {
                    self.pos += 1;
                    (0, None)
                }
                Some('+') => {
                    self.pos += 1;
                    (1, None)
                }
                Some('?') => {
                    self.pos += 1;
                    (0, Some(1))
                }
                Some('{') => {
                    let save = self.pos;
                    self.pos += 1;
                    let mut a = String::new();
                    while let Some(c) = self.peek().filter(|c| c.is_ascii_digit()) {
                        a.push(c);
                        self.pos += 1;
                    }
                    if a.is_empty() {
                        self.pos = save;
                        return None; // outside the subset
                    }
                    let min: usize = a.parse().ok()?;
                    let max = if self.peek() == Some(',') {
                        self.pos += 1;
                        let mut b = String::new();
                        while let Some(c) = self.peek().filter(|c| c.is_ascii_digit()) {
                            b.push(c);
                            self.pos += 1;
                        }
                        if b.is_empty() {
                            None
                        } else {
                            Some(b.parse().ok()?)
                        }
                    } else {
                        Some(min)
                    };
                    if self.peek() != Some('}') {
                        return None;
                    }
                    self.pos += 1;
                    if let Some(m) = max {
                        if m < min || m > 50 {
                            return None;
                        }
                    }
                    if min > 50 {
                        return None;
                    }
                    (min, max)
                }
                _ => return Some(node),
            };
            // lazy / possessive suffixes and stacked quantifiers are outside the subset
            if matches!(self.peek(), Some('?') | Some('+') | Some('*') | Some('{')) {
                return None;
            }
            if matches!(node, Node::Start | Node::End) {
                return None;
            }
            node = Node::Rep(Box::new(node), min, max);
        }
    }
    fn atom(&mut self) -> Option<Node> {
        let c = self.peek()?;
        self.pos += 1;
        Some(match c {
            '.' => Node::Any,
            '^' => Node::Start,
            '$' => Node::End,
            '(' => {
                if self.peek() == Some('?') {
                    return None;
                }
                let inner = self.alt()?;
                if self.peek() != Some(')') {
                    return None;
                }
                self.pos += 1;
                Node::Group(Box::new(inner))
            }
            '[' => {
                let mut neg = false;
                if self.peek() == Some('^') {
                    neg = true;
                    self.pos += 1;
                }
                let mut ranges = vec![];
                let mut first = true;
                loop {
                    let c = self.peek()?;
                    self.pos += 1;
                    if c == ']' && !first {
                        break;
                    }
                    first = false;
                    if c == '\\' || c == '[' || c == '&' || c == '~' || c == '-' {
                        return None; // keep the subset simple
                    }
                    if self.peek() == Some('-') && self.s.get(self.pos + 1).map(|x| *x != ']').unwrap_or(false) {
                        self.pos += 1;
                        let hi = self.peek()?;
                        self.pos += 1;
                        if hi == '\\' || hi < c {
                            return None;
                        }
                        ranges.push((c, hi));
                    } else {
                        ranges.push((c, c));
                    }
                }
                Node::Class(ranges, neg)
            }
            '\\' => {
                let e = self.peek()?;
                self.pos += 1;
                if "\\.[]()|*+?{}^$".contains(e) {
                    Node::Char(e)
                } else {
                    return None; // \d, \w, \p{..}: not in the subset
                }
            }
            '*' | '+' | '?' | '{' | '}' | ')' | ']' => return None,
            c => Node::Char(c),
        })
    }
}

fn parse(p: &str) -> Option<Node> {
    let chars: Vec<char> = p.chars().collect();
    let mut ps = Parser { s: &chars, pos: 0 };
    let n = ps.alt()?;
    if ps.pos != chars.len() {
        return None;
    }
    Some(n)
}

/// all end positions of matches of `n` starting at `i` (continuation-passing backtracking)
fn m(n: &Node, s: &[char], i: usize, k: &mut dyn FnMut(usize) -> bool, fuel: &std::cell::Cell<u64>) -> bool {
    if fuel.get() == 0 {
        return false;
    }
    fuel.set(fuel.get() - 1);
    match n {
        Node::Char(c) => i < s.len() && s[i] == *c && k(i + 1),
        // `.` does not match a line feed in the regex crate's default mode
        Node::Any => i < s.len() && s[i] != '\n' && k(i + 1),
        Node::Class(r, neg) => i < s.len() && (r.iter().any(|(a, b)| s[i] >= *a && s[i] <= *b) != *neg) && k(i + 1),
        Node::Group(g) => m(g, s, i, k, fuel),
        Node::Alt(alts) => {
            for a in alts {
                if m(a, s, i, k, fuel) {
                    return true;
                }
            }
            false
        }
        Node::Seq(items) => seq(items, s, i, k, fuel),
        Node::Start => i == 0 && k(i),
        Node::End => i == s.len() && k(i),
        Node::Rep(inner, min, max) => rep(inner, *min, *max, 0, s, i, k, fuel),
    }
}

fn seq(items: &[Node], s: &[char], i: usize, k: &mut dyn FnMut(usize) -> bool, fuel: &std::cell::Cell<u64>) -> bool {
    match items.split_first() {
        None => k(i),
        Some((first, rest)) => {
            // one budget for the whole search: the continuations share it
            let mut cont = |j: usize| -> bool { seq(rest, s, j, k, fuel) };
            m(first, s, i, &mut cont, fuel)
        }
    }
}

#[allow(clippy::too_many_arguments)]
fn rep(inner: &Node, min: usize, max: Option<usize>, count: usize, s: &[char], i: usize, k: &mut dyn FnMut(usize) -> bool, fuel: &std::cell::Cell<u64>) -> bool {
    if max.map(|mx| count < mx).unwrap_or(true) {
        let mut cont = |j: usize| -> bool {
            if j == i && count >= min {
                return false; // an empty iteration beyond the minimum makes no progress
            }
            rep(inner, min, max, count + 1, s, j, k, fuel)
        };
        if m(inner, s, i, &mut cont, fuel) {
            return true;
        }
    }
    count >= min && k(i)
}

/// Some(result) if the pattern is inside the subset (and the search stayed within its budget)
pub fn is_match(pattern: &str, subject: &str, search: bool) -> Option<bool> {
    let n = parse(pattern)?;
    let s: Vec<char> = subject.chars().collect();
    let fuel = std::cell::Cell::new(150_000u64);
    let starts: Vec<usize> = if search { (0..=s.len()).collect() } else { vec![0] };
    for st in starts {
        let mut k = |j: usize| -> bool { search || j == s.len() };
        if m(&n, &s, st, &mut k, &fuel) {
            return Some(true);
        }
    }
    if fuel.get() == 0 {
        return None;
    }
    Some(false)
}

#[cfg(test)]
mod tests {
    use super::*;
    #[test]
    fn agrees_with_regex_crate_on_the_subset() {
        let subjects = ["", "a", "b", "ab", "ba", "abc", "aab", "abab", "xabx", "a.b", "a|b", "(a)", "^a", "a$", "aaaa", "cab", "bca"];
        let pats = ["a", "ab", "a|b", "a|ab", "(a|ab)*", "a*", "a+b?", "[ab]+", "[^a]", "[a-c]{2}", "a{2,}", "(ab)+c?", "^a", "a$", "^a|b$", "\\.", "a\\|b", "\\(a\\)", ".", "..", "a.c", "(|a)b", "a(|b)", "b|bc|bca", "(a|b){2}", "x*", ""];
        let mut n = 0;
        for p in pats {
            for s in subjects {
                for search in [false, true] {
                    let want = crate::eval::regex_oracle(s, p, search);
                    let got = is_match(p, s, search).unwrap_or_else(|| panic!("pattern {:?} should be in the subset", p));
                    assert_eq!(got, want, "pattern {:?} subject {:?} search {}", p, s, search);
                    n += 1;
                }
            }
        }
        assert!(n > 500);
        assert!(is_match("\\d", "1", false).is_none());
        assert!(is_match("[", "a", false).is_none());
    }
}
