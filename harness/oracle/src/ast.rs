//! The oracle's AST for RFC 9535 queries (DESIGN Appendix B). Names and string literals hold the
//! *denoted* strings (escapes decoded). Spelling is not part of the AST.

#[derive(Debug, Clone, PartialEq)]
pub struct Query {
    pub root: Root,
    pub segments: Vec<Segment>,
}

#[derive(Debug, Clone, Copy, PartialEq, Eq)]
pub enum Root {
    Root,
    Current,
}

#[derive(Debug, Clone, PartialEq)]
pub struct Segment {
    pub descendant: bool,
    pub selectors: Vec<Selector>,
}

#[derive(Debug, Clone, PartialEq)]
pub enum Selector {
    Name(String),
    Wildcard,
    Index(i64),
    Slice(Option<i64>, Option<i64>, Option<i64>),
    Filter(Or),
}

#[derive(Debug, Clone, PartialEq)]
pub struct Or(pub Vec<And>);
#[derive(Debug, Clone, PartialEq)]
pub struct And(pub Vec<Basic>);

#[derive(Debug, Clone, PartialEq)]
pub enum Basic {
    Paren { not: bool, inner: Or },
    Test { not: bool, test: TestExpr },
    Cmp { lhs: Comparable, op: CmpOp, rhs: Comparable },
}

#[derive(Debug, Clone, PartialEq)]
pub enum TestExpr {
    Query(Query),
    Func(FuncCall),
}

#[derive(Debug, Clone, Copy, PartialEq, Eq, Hash)]
pub enum CmpOp {
    Eq,
    Ne,
    Lt,
    Le,
    Gt,
    Ge,
}

impl CmpOp {
    pub const ALL: [CmpOp; 6] = [CmpOp::Eq, CmpOp::Ne, CmpOp::Lt, CmpOp::Le, CmpOp::Gt, CmpOp::Ge];
    pub fn text(self) -> &'static str {
        match self {
            CmpOp::Eq => "==",
            CmpOp::Ne => "!=",
            CmpOp::Lt => "<",
            CmpOp::Le => "<=",
            CmpOp::Gt => ">",
            CmpOp::Ge => ">=",
        }
    }
    pub fn from_text(s: &str) -> Option<CmpOp> {
        CmpOp::ALL.iter().copied().find(|o| o.text() == s)
    }
}

#[derive(Debug, Clone, PartialEq)]
pub enum Comparable {
    Lit(Literal),
    /// a singular query: root + name/index steps only
    Singular { root: Root, steps: Vec<SingStep> },
    Func(FuncCall),
}

#[derive(Debug, Clone, PartialEq)]
pub enum SingStep {
    Name(String),
    Index(i64),
}

#[derive(Debug, Clone, PartialEq)]
pub struct FuncCall {
    pub name: String,
    pub args: Vec<Arg>,
}

#[derive(Debug, Clone, PartialEq)]
pub enum Arg {
    Lit(Literal),
    Query(Query),
    Logical(Or),
    Func(FuncCall),
}

#[derive(Debug, Clone, PartialEq)]
pub enum Literal {
    Null,
    True,
    False,
    Str(String),
    /// text as it should be (or was) written, and its value
    Num { text: String, value: NumVal },
}

#[derive(Debug, Clone, Copy, PartialEq)]
pub enum NumVal {
    Int(i64),
    Float(f64),
}

impl Query {
    pub fn root(segments: Vec<Segment>) -> Query {
        Query { root: Root::Root, segments }
    }
    pub fn current(segments: Vec<Segment>) -> Query {
        Query { root: Root::Current, segments }
    }
    /// RFC 9535 2.3.5.1: only name / index selectors in child segments with one selector each
    pub fn is_singular(&self) -> bool {
        self.segments.iter().all(|s| {
            !s.descendant && s.selectors.len() == 1 && matches!(s.selectors[0], Selector::Name(_) | Selector::Index(_))
        })
    }
    pub fn to_singular(&self) -> Option<Comparable> {
        if !self.is_singular() {
            return None;
        }
        Some(Comparable::Singular {
            root: self.root,
            steps: self
                .segments
                .iter()
                .map(|s| match &s.selectors[0] {
                    Selector::Name(n) => SingStep::Name(n.clone()),
                    Selector::Index(i) => SingStep::Index(*i),
                    _ => unreachable!(),
                })
                .collect(),
        })
    }
}

impl Segment {
    pub fn child(sel: Selector) -> Segment {
        Segment { descendant: false, selectors: vec![sel] }
    }
    pub fn desc(sel: Selector) -> Segment {
        Segment { descendant: true, selectors: vec![sel] }
    }
    pub fn children(sels: Vec<Selector>) -> Segment {
        Segment { descendant: false, selectors: sels }
    }
}

impl Or {
    pub fn single(b: Basic) -> Or {
        Or(vec![And(vec![b])])
    }
    pub fn as_single(&self) -> Option<&Basic> {
        if self.0.len() == 1 && self.0[0].0.len() == 1 {
            Some(&self.0[0].0[0])
        } else {
            None
        }
    }
}

impl Literal {
    pub fn int(i: i64) -> Literal {
        Literal::Num { text: i.to_string(), value: NumVal::Int(i) }
    }
    pub fn num_text(text: &str) -> Literal {
        let value = parse_num_value(text);
        Literal::Num { text: text.to_string(), value }
    }
    pub fn to_json(&self) -> crate::json::J {
        use crate::json::{J, N};
        match self {
            Literal::Null => J::Null,
            Literal::True => J::Bool(true),
            Literal::False => J::Bool(false),
            Literal::Str(s) => J::Str(s.clone()),
            Literal::Num { value: NumVal::Int(i), .. } => J::Num(N::Int(*i)),
            Literal::Num { value: NumVal::Float(f), .. } => J::Num(N::Float(*f)),
        }
    }
}

/// Value of a number literal text that matches the `number` ABNF rule. Integers without
/// fraction/exponent that fit i64 are Int; everything else is the nearest f64. A literal with
/// fraction/exponent whose value is integral and fits 2^53 is kept Float (compares equal anyway).
pub fn parse_num_value(text: &str) -> NumVal {
    if !text.contains(['.', 'e', 'E']) {
        if let Ok(i) = text.parse::<i64>() {
            return NumVal::Int(i);
        }
    }
    NumVal::Float(text.parse::<f64>().unwrap_or(f64::NAN))
}

// ---------------------------------------------------------------------------------------------
// walkers used by trigger predicates and generators

pub trait Visitor {
    fn segment(&mut self, _s: &Segment, _in_filter: bool) {}
    fn selector(&mut self, _s: &Selector, _in_filter: bool) {}
    fn query(&mut self, _q: &Query, _in_filter: bool) {}
    fn basic(&mut self, _b: &Basic) {}
    fn comparable(&mut self, _c: &Comparable) {}
    fn func(&mut self, _f: &FuncCall) {}
    fn literal(&mut self, _l: &Literal) {}
}

pub fn walk_query<V: Visitor>(q: &Query, v: &mut V, in_filter: bool) {
    v.query(q, in_filter);
    for s in &q.segments {
        v.segment(s, in_filter);
        for sel in &s.selectors {
            v.selector(sel, in_filter);
            if let Selector::Filter(f) = sel {
                walk_or(f, v);
            }
        }
    }
}
pub fn walk_or<V: Visitor>(o: &Or, v: &mut V) {
    for a in &o.0 {
        for b in &a.0 {
            v.basic(b);
            match b {
                Basic::Paren { inner, .. } => walk_or(inner, v),
                Basic::Test { test: TestExpr::Query(q), .. } => walk_query(q, v, true),
                Basic::Test { test: TestExpr::Func(f), .. } => walk_func(f, v),
                Basic::Cmp { lhs, rhs, .. } => {
                    walk_comparable(lhs, v);
                    walk_comparable(rhs, v);
                }
            }
        }
    }
}
pub fn walk_comparable<V: Visitor>(c: &Comparable, v: &mut V) {
    v.comparable(c);
    match c {
        Comparable::Lit(l) => v.literal(l),
        Comparable::Func(f) => walk_func(f, v),
        Comparable::Singular { .. } => {}
    }
}
pub fn walk_func<V: Visitor>(f: &FuncCall, v: &mut V) {
    v.func(f);
    for a in &f.args {
        match a {
            Arg::Lit(l) => v.literal(l),
            Arg::Query(q) => walk_query(q, v, true),
            Arg::Logical(o) => walk_or(o, v),
            Arg::Func(f) => walk_func(f, v),
        }
    }
}
