//! Oracle (b): hand-written recursive-descent recogniser/parser for RFC 9535 queries, plus the
//! validity rules beyond the ABNF (integer range, function well-typedness). Independent of the
//! ABNF table in abnf.rs (the two are cross-checked) and of the library's pest grammar.

use crate::ast::*;

#[derive(Debug, Clone, Copy, PartialEq, Eq, Hash, PartialOrd, Ord)]
pub enum Reason {
    Syntax,
    BlankNotAllowed,
    LeadingZero,
    MinusZero,
    IntRange,
    ControlChar,
    BadEscape,
    LoneSurrogate,
    NonSingularInComparison,
    LiteralAsTest,
    FnArity,
    FnArgType,
    FnResultAsTest,
    FnResultCompared,
    TooDeep,
}

impl Reason {
    pub fn is_syntax(self) -> bool {
        !matches!(
            self,
            Reason::IntRange | Reason::FnArity | Reason::FnArgType | Reason::FnResultAsTest | Reason::FnResultCompared | Reason::TooDeep
        )
    }
    pub fn name(self) -> &'static str {
        match self {
            Reason::Syntax => "Syntax",
            Reason::BlankNotAllowed => "BlankNotAllowed",
            Reason::LeadingZero => "LeadingZero",
            Reason::MinusZero => "MinusZero",
            Reason::IntRange => "IntRange",
            Reason::ControlChar => "ControlChar",
            Reason::BadEscape => "BadEscape",
            Reason::LoneSurrogate => "LoneSurrogate",
            Reason::NonSingularInComparison => "NonSingularInComparison",
            Reason::LiteralAsTest => "LiteralAsTest",
            Reason::FnArity => "FnArity",
            Reason::FnArgType => "FnArgType",
            Reason::FnResultAsTest => "FnResultAsTest",
            Reason::FnResultCompared => "FnResultCompared",
            Reason::TooDeep => "TooDeep",
        }
    }
}

#[derive(Debug, Clone, PartialEq)]
pub struct PErr {
    pub reason: Reason,
    pub pos: usize,
}

/// How the string was spelled (used for non-triviality rules and known-finding triggers).
#[derive(Debug, Clone, Default, PartialEq)]
pub struct SpellInfo {
    pub blanks: usize,
    pub name_sq: usize,
    pub name_dq: usize,
    pub name_short: usize,
    /// name selector containing `\\` or `\/`
    pub name_esc_simple: usize,
    /// name selector containing any other escape
    pub name_esc_other: usize,
    /// string literal (comparable / function argument) containing any escape
    pub lit_esc: usize,
    pub lit_str: usize,
    pub num_frac_exp: usize,
    pub unions: usize,
    pub parens: usize,
    pub funcs: usize,
    pub filters: usize,
    pub descendants: usize,
    pub slices: usize,
    /// blank inside the brackets of a singular query that is an operand of a comparison (zone U1)
    pub u1: bool,
    /// number literal outside the exact I-JSON range, or not finite (zone U2)
    pub u2: bool,
    /// names of functions called
    pub fn_names: Vec<String>,
    pub max_depth: usize,
    /// a non-ASCII White_Space character occurs in a shorthand member name
    pub uni_ws_shorthand: bool,
    /// lower-case hex digit used in a \u escape
    pub lc_hex: bool,
}

#[derive(Debug, Clone, PartialEq)]
pub enum Class {
    Valid,
    Invalid(Reason),
    /// syntactically fine, calls a function name RFC 9535 does not define
    OutOfScope(String),
    /// the oracle abstains (zone name)
    Unsettled(&'static str),
}

#[derive(Debug, Clone)]
pub struct Parsed {
    pub class: Class,
    pub ast: Option<Query>,
    pub info: SpellInfo,
    /// syntactically in the language of the ABNF (strict reading)?  None when abstaining (TooDeep)
    pub syntax_ok_strict: Option<bool>,
    /// syntactically in the U1-variant language
    pub syntax_ok_u1: Option<bool>,
    pub err_pos: Option<usize>,
}

pub const MAX_INT: i64 = 9007199254740991;
pub const MAX_DEPTH: usize = 1500;
pub const RFC_FUNCS: [&str; 5] = ["length", "count", "match", "search", "value"];
pub const EXT_FUNCS: [&str; 5] = ["in", "nin", "none_of", "any_of", "subset_of"];

#[derive(Debug, Clone, Copy, PartialEq, Eq)]
pub enum Ty {
    Value,
    Logical,
    Nodes,
}

pub fn fn_sig(name: &str) -> Option<(&'static [Ty], Ty)> {
    match name {
        "length" => Some((&[Ty::Value], Ty::Value)),
        "count" => Some((&[Ty::Nodes], Ty::Value)),
        "value" => Some((&[Ty::Nodes], Ty::Value)),
        "match" | "search" => Some((&[Ty::Value, Ty::Value], Ty::Logical)),
        "in" | "nin" | "none_of" | "any_of" | "subset_of" => Some((&[Ty::Value, Ty::Value], Ty::Logical)),
        _ => None,
    }
}

pub fn is_blank(c: char) -> bool {
    c == ' ' || c == '\t' || c == '\n' || c == '\r'
}
fn is_name_first(c: char) -> bool {
    c.is_ascii_alphabetic() || c == '_' || (c as u32) >= 0x80
}
fn is_name_char(c: char) -> bool {
    is_name_first(c) || c.is_ascii_digit()
}

struct P<'a> {
    s: &'a [char],
    pos: usize,
    info: SpellInfo,
    depth: usize,
    /// first semantic (non-syntax) error met; syntax errors abort immediately
    sem: Option<PErr>,
    /// a function expression already parsed at (start, end) that the next basic-expr starting
    /// at `start` must reuse instead of parsing again (avoids exponential re-parsing)
    pending: Option<(usize, usize, FuncCall)>,
}

type R<T> = Result<T, PErr>;

impl<'a> P<'a> {
    fn peek(&self) -> Option<char> {
        self.s.get(self.pos).copied()
    }
    fn peek_at(&self, k: usize) -> Option<char> {
        self.s.get(self.pos + k).copied()
    }
    fn err<T>(&self, reason: Reason) -> R<T> {
        Err(PErr { reason, pos: self.pos })
    }
    fn sem_err(&mut self, reason: Reason) {
        if self.sem.is_none() {
            self.sem = Some(PErr { reason, pos: self.pos });
        }
    }
    fn skip_s(&mut self) -> usize {
        let st = self.pos;
        while let Some(c) = self.peek() {
            if is_blank(c) {
                self.pos += 1;
            } else {
                break;
            }
        }
        self.info.blanks += self.pos - st;
        self.pos - st
    }
    fn restore(&mut self, pos: usize) {
        // give back blanks counted beyond pos
        let n = self.s[pos..self.pos].iter().filter(|c| is_blank(**c)).count();
        self.info.blanks -= n.min(self.info.blanks);
        self.pos = pos;
    }
    fn eat(&mut self, c: char) -> bool {
        if self.peek() == Some(c) {
            self.pos += 1;
            true
        } else {
            false
        }
    }
    fn enter(&mut self) -> R<()> {
        self.depth += 1;
        if self.depth > self.info.max_depth {
            self.info.max_depth = self.depth;
        }
        if self.depth > MAX_DEPTH {
            return self.err(Reason::TooDeep);
        }
        Ok(())
    }
    fn leave(&mut self) {
        self.depth -= 1;
    }

    // jsonpath-query = root-identifier segments
    fn segments(&mut self) -> R<(Vec<Segment>, bool)> {
        // returns (segments, blank_inside_some_bracket)
        let mut out = vec![];
        let mut blank_in_bracket = false;
        loop {
            let save = self.pos;
            self.skip_s();
            match self.peek() {
                Some('[') | Some('.') => {
                    let (seg, b) = self.segment()?;
                    blank_in_bracket |= b;
                    out.push(seg);
                }
                _ => {
                    self.restore(save);
                    break;
                }
            }
        }
        Ok((out, blank_in_bracket))
    }

    fn segment(&mut self) -> R<(Segment, bool)> {
        if self.peek() == Some('[') {
            let (sels, b) = self.bracketed()?;
            return Ok((Segment { descendant: false, selectors: sels }, b));
        }
        // '.'
        self.pos += 1;
        if self.eat('.') {
            self.info.descendants += 1;
            match self.peek() {
                Some('[') => {
                    let (sels, b) = self.bracketed()?;
                    Ok((Segment { descendant: true, selectors: sels }, b))
                }
                Some('*') => {
                    self.pos += 1;
                    Ok((Segment::desc(Selector::Wildcard), false))
                }
                Some(c) if is_name_first(c) => Ok((Segment::desc(Selector::Name(self.shorthand())), false)),
                Some(c) if is_blank(c) => self.err(Reason::BlankNotAllowed),
                _ => self.err(Reason::Syntax),
            }
        } else {
            match self.peek() {
                Some('*') => {
                    self.pos += 1;
                    Ok((Segment::child(Selector::Wildcard), false))
                }
                Some(c) if is_name_first(c) => Ok((Segment::child(Selector::Name(self.shorthand())), false)),
                Some(c) if is_blank(c) => self.err(Reason::BlankNotAllowed),
                _ => self.err(Reason::Syntax),
            }
        }
    }

    fn shorthand(&mut self) -> String {
        let st = self.pos;
        while let Some(c) = self.peek() {
            if is_name_char(c) {
                self.pos += 1;
            } else {
                break;
            }
        }
        self.info.name_short += 1;
        let s: String = self.s[st..self.pos].iter().collect();
        if s.chars().any(|c| c.is_whitespace()) {
            self.info.uni_ws_shorthand = true;
        }
        s
    }

    fn bracketed(&mut self) -> R<(Vec<Selector>, bool)> {
        self.enter()?;
        let open = self.pos;
        self.pos += 1; // '['
        let mut blank = self.skip_s() > 0;
        let mut sels = vec![self.selector()?];
        loop {
            let b = self.skip_s() > 0;
            if self.eat(',') {
                blank |= b;
                blank |= self.skip_s() > 0;
                sels.push(self.selector()?);
            } else if self.eat(']') {
                blank |= b;
                break;
            } else {
                let _ = open;
                return self.err(Reason::Syntax);
            }
        }
        if sels.len() > 1 {
            self.info.unions += 1;
        }
        self.leave();
        Ok((sels, blank))
    }

    fn selector(&mut self) -> R<Selector> {
        match self.peek() {
            Some('\'') | Some('"') => {
                let dq = self.peek() == Some('"');
                let (s, simple, other) = self.string_lit()?;
                if dq {
                    self.info.name_dq += 1
                } else {
                    self.info.name_sq += 1
                }
                if simple {
                    self.info.name_esc_simple += 1
                }
                if other {
                    self.info.name_esc_other += 1
                }
                Ok(Selector::Name(s))
            }
            Some('*') => {
                self.pos += 1;
                Ok(Selector::Wildcard)
            }
            Some('?') => {
                self.pos += 1;
                self.info.filters += 1;
                self.skip_s();
                Ok(Selector::Filter(self.logical_or()?))
            }
            Some(':') => self.slice_rest(None),
            Some(c) if c == '-' || c.is_ascii_digit() => {
                let v = self.int()?;
                let save = self.pos;
                self.skip_s();
                if self.peek() == Some(':') {
                    self.slice_rest(Some(v))
                } else {
                    self.restore(save);
                    Ok(Selector::Index(v))
                }
            }
            _ => self.err(Reason::Syntax),
        }
    }

    // at ':' ; slice-selector = [start S] ":" S [end S] [":" [S step]]
    fn slice_rest(&mut self, start: Option<i64>) -> R<Selector> {
        self.info.slices += 1;
        self.pos += 1; // ':'
        let save = self.pos;
        self.skip_s();
        let mut end = None;
        let mut step = None;
        match self.peek() {
            Some(c) if c == '-' || c.is_ascii_digit() => {
                end = Some(self.int()?);
                let save2 = self.pos;
                self.skip_s();
                if self.peek() != Some(':') {
                    self.restore(save2);
                    return Ok(Selector::Slice(start, end, step));
                }
            }
            Some(':') => {}
            _ => {
                self.restore(save);
                return Ok(Selector::Slice(start, end, step));
            }
        }
        // at second ':'
        self.pos += 1;
        let save3 = self.pos;
        self.skip_s();
        match self.peek() {
            Some(c) if c == '-' || c.is_ascii_digit() => {
                step = Some(self.int()?);
            }
            _ => self.restore(save3),
        }
        Ok(Selector::Slice(start, end, step))
    }

    // int = "0" / (["-"] DIGIT1 *DIGIT), within the I-JSON range
    fn int(&mut self) -> R<i64> {
        let st = self.pos;
        let neg = self.eat('-');
        match self.peek() {
            Some('0') => {
                if neg {
                    return self.err(Reason::MinusZero);
                }
                self.pos += 1;
                if matches!(self.peek(), Some(c) if c.is_ascii_digit()) {
                    return self.err(Reason::LeadingZero);
                }
                Ok(0)
            }
            Some(c) if c.is_ascii_digit() => {
                let mut v: i128 = 0;
                let mut over = false;
                while let Some(c) = self.peek() {
                    if let Some(d) = c.to_digit(10) {
                        if v < (1i128 << 100) {
                            v = v * 10 + d as i128;
                        } else {
                            over = true;
                        }
                        self.pos += 1;
                    } else {
                        break;
                    }
                }
                if over || v > MAX_INT as i128 {
                    // validity, not syntax: remember and continue so that syntax errors later
                    // in the string still take precedence
                    let p = self.pos;
                    self.pos = st;
                    self.sem_err(Reason::IntRange);
                    self.pos = p;
                    return Ok(if neg { -MAX_INT } else { MAX_INT });
                }
                Ok(if neg { -(v as i64) } else { v as i64 })
            }
            _ => self.err(Reason::Syntax),
        }
    }

    /// string-literal; returns (denoted string, has simple escape, has other escape)
    fn string_lit(&mut self) -> R<(String, bool, bool)> {
        let q = self.peek().unwrap();
        self.pos += 1;
        let mut out = String::new();
        let (mut simple, mut other) = (false, false);
        loop {
            let c = match self.peek() {
                Some(c) => c,
                None => return self.err(Reason::Syntax),
            };
            if c == q {
                self.pos += 1;
                break;
            }
            if c == '\\' {
                self.pos += 1;
                let e = match self.peek() {
                    Some(e) => e,
                    None => return self.err(Reason::Syntax),
                };
                match e {
                    '\\' | '/' => {
                        simple = true;
                        out.push(e);
                        self.pos += 1;
                    }
                    'b' => {
                        other = true;
                        out.push('\u{8}');
                        self.pos += 1;
                    }
                    'f' => {
                        other = true;
                        out.push('\u{c}');
                        self.pos += 1;
                    }
                    'n' => {
                        other = true;
                        out.push('\n');
                        self.pos += 1;
                    }
                    'r' => {
                        other = true;
                        out.push('\r');
                        self.pos += 1;
                    }
                    't' => {
                        other = true;
                        out.push('\t');
                        self.pos += 1;
                    }
                    'u' => {
                        other = true;
                        self.pos += 1;
                        let hi = self.hex4()?;
                        if (0xD800..0xDC00).contains(&hi) {
                            // must be followed by \u low surrogate
                            if self.peek() == Some('\\') && self.peek_at(1) == Some('u') {
                                self.pos += 2;
                                let lo = self.hex4()?;
                                if !(0xDC00..0xE000).contains(&lo) {
                                    return self.err(Reason::LoneSurrogate);
                                }
                                let cp = 0x10000 + ((hi - 0xD800) << 10) + (lo - 0xDC00);
                                out.push(char::from_u32(cp).unwrap());
                            } else {
                                return self.err(Reason::LoneSurrogate);
                            }
                        } else if (0xDC00..0xE000).contains(&hi) {
                            return self.err(Reason::LoneSurrogate);
                        } else {
                            out.push(char::from_u32(hi).unwrap());
                        }
                    }
                    e if e == q => {
                        other = true;
                        out.push(e);
                        self.pos += 1;
                    }
                    _ => return self.err(Reason::BadEscape),
                }
                continue;
            }
            if (c as u32) < 0x20 {
                return self.err(Reason::ControlChar);
            }
            // the other quote character and everything else >= 0x20 is allowed unescaped
            out.push(c);
            self.pos += 1;
        }
        Ok((out, simple, other))
    }

    fn hex4(&mut self) -> R<u32> {
        let mut v = 0u32;
        for _ in 0..4 {
            match self.peek().and_then(|c| if c.is_ascii() { c.to_digit(16) } else { None }) {
                Some(d) => {
                    if self.peek().unwrap().is_ascii_lowercase() {
                        self.info.lc_hex = true;
                    }
                    v = v * 16 + d;
                    self.pos += 1;
                }
                None => return self.err(Reason::BadEscape),
            }
        }
        Ok(v)
    }

    // logical-or-expr = logical-and-expr *(S "||" S logical-and-expr)
    fn logical_or(&mut self) -> R<Or> {
        self.enter()?;
        let mut ands = vec![self.logical_and()?];
        loop {
            let save = self.pos;
            self.skip_s();
            if self.peek() == Some('|') && self.peek_at(1) == Some('|') {
                self.pos += 2;
                self.skip_s();
                ands.push(self.logical_and()?);
            } else {
                self.restore(save);
                break;
            }
        }
        self.leave();
        Ok(Or(ands))
    }

    fn logical_and(&mut self) -> R<And> {
        let mut bs = vec![self.basic()?];
        loop {
            let save = self.pos;
            self.skip_s();
            if self.peek() == Some('&') && self.peek_at(1) == Some('&') {
                self.pos += 2;
                self.skip_s();
                bs.push(self.basic()?);
            } else {
                self.restore(save);
                break;
            }
        }
        Ok(And(bs))
    }

    fn comp_op_ahead(&mut self) -> Option<CmpOp> {
        // at current pos (after S); does not consume
        let a = self.peek()?;
        let b = self.peek_at(1);
        match (a, b) {
            ('=', Some('=')) => Some(CmpOp::Eq),
            ('!', Some('=')) => Some(CmpOp::Ne),
            ('<', Some('=')) => Some(CmpOp::Le),
            ('>', Some('=')) => Some(CmpOp::Ge),
            ('<', _) => Some(CmpOp::Lt),
            ('>', _) => Some(CmpOp::Gt),
            _ => None,
        }
    }

    fn literal_start(&self) -> bool {
        match self.peek() {
            Some('\'') | Some('"') | Some('-') => true,
            Some(c) if c.is_ascii_digit() => true,
            Some(c) if c.is_ascii_lowercase() => {
                // keyword not followed by a function-name-char or '('
                let mut k = 0;
                while let Some(c) = self.peek_at(k) {
                    if c.is_ascii_lowercase() || c == '_' || c.is_ascii_digit() {
                        k += 1;
                    } else {
                        break;
                    }
                }
                let word: String = self.s[self.pos..self.pos + k].iter().collect();
                (word == "true" || word == "false" || word == "null") && self.peek_at(k) != Some('(')
            }
            _ => false,
        }
    }

    fn literal(&mut self) -> R<Literal> {
        match self.peek() {
            Some('\'') | Some('"') => {
                let (s, simple, other) = self.string_lit()?;
                self.info.lit_str += 1;
                if simple || other {
                    self.info.lit_esc += 1;
                }
                Ok(Literal::Str(s))
            }
            Some(c) if c.is_ascii_lowercase() => {
                for (w, l) in [("true", Literal::True), ("false", Literal::False), ("null", Literal::Null)] {
                    let n = w.len();
                    if self.s.len() >= self.pos + n && self.s[self.pos..self.pos + n].iter().collect::<String>() == w {
                        self.pos += n;
                        return Ok(l);
                    }
                }
                self.err(Reason::Syntax)
            }
            _ => self.number(),
        }
    }

    // number = (int / "-0") [ frac ] [ exp ]
    fn number(&mut self) -> R<Literal> {
        let st = self.pos;
        let neg = self.eat('-');
        match self.peek() {
            Some('0') => {
                self.pos += 1;
                if matches!(self.peek(), Some(c) if c.is_ascii_digit()) {
                    return self.err(Reason::LeadingZero);
                }
            }
            Some(c) if c.is_ascii_digit() => {
                while matches!(self.peek(), Some(c) if c.is_ascii_digit()) {
                    self.pos += 1;
                }
            }
            _ => return self.err(Reason::Syntax),
        }
        let _ = neg;
        let mut fe = false;
        if self.peek() == Some('.') {
            if matches!(self.peek_at(1), Some(c) if c.is_ascii_digit()) {
                fe = true;
                self.pos += 1;
                while matches!(self.peek(), Some(c) if c.is_ascii_digit()) {
                    self.pos += 1;
                }
            } else {
                return self.err(Reason::Syntax);
            }
        }
        if matches!(self.peek(), Some('e') | Some('E')) {
            let mut k = 1;
            if matches!(self.peek_at(k), Some('+') | Some('-')) {
                k += 1;
            }
            if matches!(self.peek_at(k), Some(c) if c.is_ascii_digit()) {
                fe = true;
                self.pos += k;
                while matches!(self.peek(), Some(c) if c.is_ascii_digit()) {
                    self.pos += 1;
                }
            } else {
                return self.err(Reason::Syntax);
            }
        }
        if fe {
            self.info.num_frac_exp += 1;
        }
        let text: String = self.s[st..self.pos].iter().collect();
        let value = parse_num_value(&text);
        // zone U2 for literals: integer syntax (no fraction, no exponent) beyond the I-JSON range
        // - RFC 9535 2.1 is read either way for comparison literals - and non-finite values
        let exact = match value {
            NumVal::Int(i) => i.unsigned_abs() <= MAX_INT as u64,
            NumVal::Float(f) => f.is_finite() && (fe || f.abs() <= MAX_INT as f64),
        };
        if !exact {
            self.info.u2 = true;
        }
        Ok(Literal::Num { text, value })
    }

    fn function_start(&self) -> Option<usize> {
        // returns length of the name if a function-name immediately followed by '(' starts here
        let c = self.peek()?;
        if !c.is_ascii_lowercase() {
            return None;
        }
        let mut k = 1;
        while let Some(c) = self.peek_at(k) {
            if c.is_ascii_lowercase() || c == '_' || c.is_ascii_digit() {
                k += 1;
            } else {
                break;
            }
        }
        if self.peek_at(k) == Some('(') {
            Some(k)
        } else {
            None
        }
    }

    fn function_expr(&mut self, name_len: usize) -> R<FuncCall> {
        self.enter()?;
        let name: String = self.s[self.pos..self.pos + name_len].iter().collect();
        self.pos += name_len + 1; // name and '('
        self.info.funcs += 1;
        self.info.fn_names.push(name.clone());
        self.skip_s();
        let mut args = vec![];
        if self.peek() == Some(')') {
            self.pos += 1;
        } else {
            args.push(self.fn_arg()?);
            loop {
                self.skip_s();
                if self.eat(',') {
                    self.skip_s();
                    args.push(self.fn_arg()?);
                } else if self.eat(')') {
                    break;
                } else {
                    return self.err(Reason::Syntax);
                }
            }
        }
        self.leave();
        Ok(FuncCall { name, args })
    }

    // function-argument = literal / filter-query / logical-expr / function-expr
    fn fn_arg(&mut self) -> R<Arg> {
        if self.literal_start() {
            let save_pos = self.pos;
            let save_info = self.info.clone();
            let save_sem = self.sem.clone();
            if let Ok(l) = self.literal() {
                let after = self.pos;
                self.skip_s();
                let nx = self.peek();
                self.restore(after);
                if nx == Some(',') || nx == Some(')') {
                    return Ok(Arg::Lit(l));
                }
            }
            self.pos = save_pos;
            self.info = save_info;
            self.sem = save_sem;
        }
        if let Some(n) = self.function_start() {
            let st = self.pos;
            let f = self.function_expr(n)?;
            let after = self.pos;
            self.skip_s();
            let nx = self.peek();
            self.restore(after);
            if nx == Some(',') || nx == Some(')') {
                self.check_fn(&f, Use::Arg);
                return Ok(Arg::Func(f));
            }
            self.pending = Some((st, after, f));
            self.pos = st;
        }
        let o = self.logical_or()?;
        Ok(match o.as_single() {
            Some(Basic::Test { not: false, test: TestExpr::Query(q) }) => Arg::Query(q.clone()),
            Some(Basic::Test { not: false, test: TestExpr::Func(f) }) => Arg::Func(f.clone()),
            _ => Arg::Logical(o),
        })
    }

    fn filter_query(&mut self) -> R<(Query, bool)> {
        let root = if self.eat('@') {
            Root::Current
        } else if self.eat('$') {
            Root::Root
        } else {
            return self.err(Reason::Syntax);
        };
        let (segments, b) = self.segments()?;
        Ok((Query { root, segments }, b))
    }

    fn comparable_rhs(&mut self) -> R<Comparable> {
        if self.literal_start() {
            return Ok(Comparable::Lit(self.literal()?));
        }
        match self.peek() {
            Some('@') | Some('$') => {
                let st = self.pos;
                let (q, b) = self.filter_query()?;
                self.as_singular(q, b, st)
            }
            _ => {
                if let Some(n) = self.function_start() {
                    let f = self.function_expr(n)?;
                    self.check_fn(&f, Use::Compared);
                    Ok(Comparable::Func(f))
                } else {
                    self.err(Reason::Syntax)
                }
            }
        }
    }

    fn as_singular(&mut self, q: Query, blank_in_bracket: bool, st: usize) -> R<Comparable> {
        match q.to_singular() {
            Some(c) => {
                if blank_in_bracket {
                    self.info.u1 = true;
                }
                Ok(c)
            }
            None => Err(PErr { reason: Reason::NonSingularInComparison, pos: st }),
        }
    }

    fn basic(&mut self) -> R<Basic> {
        self.enter()?;
        let r = self.basic_inner();
        self.leave();
        r
    }

    fn basic_inner(&mut self) -> R<Basic> {
        let mut not = false;
        if self.peek() == Some('!') && self.peek_at(1) != Some('=') {
            self.pos += 1;
            not = true;
            self.skip_s();
        }
        if self.peek() == Some('(') {
            self.pos += 1;
            self.info.parens += 1;
            self.skip_s();
            let inner = self.logical_or()?;
            self.skip_s();
            if !self.eat(')') {
                return self.err(Reason::Syntax);
            }
            return Ok(Basic::Paren { not, inner });
        }
        if !not && self.literal_start() {
            let st = self.pos;
            let l = self.literal()?;
            let save = self.pos;
            self.skip_s();
            if let Some(op) = self.comp_op_ahead() {
                self.pos += op.text().len();
                self.skip_s();
                let rhs = self.comparable_rhs()?;
                return Ok(Basic::Cmp { lhs: Comparable::Lit(l), op, rhs });
            }
            self.restore(save);
            return Err(PErr { reason: Reason::LiteralAsTest, pos: st });
        }
        match self.peek() {
            Some('@') | Some('$') => {
                let st = self.pos;
                let (q, b) = self.filter_query()?;
                if !not {
                    let save = self.pos;
                    self.skip_s();
                    if let Some(op) = self.comp_op_ahead() {
                        let lhs = self.as_singular(q, b, st)?;
                        self.pos += op.text().len();
                        self.skip_s();
                        let rhs = self.comparable_rhs()?;
                        return Ok(Basic::Cmp { lhs, op, rhs });
                    }
                    self.restore(save);
                }
                Ok(Basic::Test { not, test: TestExpr::Query(q) })
            }
            _ => {
                if let Some(n) = self.function_start() {
                    let f = match self.pending.take() {
                        Some((st, end, f)) if st == self.pos => {
                            self.pos = end;
                            f
                        }
                        _ => self.function_expr(n)?,
                    };
                    if !not {
                        let save = self.pos;
                        self.skip_s();
                        if let Some(op) = self.comp_op_ahead() {
                            self.check_fn(&f, Use::Compared);
                            self.pos += op.text().len();
                            self.skip_s();
                            let rhs = self.comparable_rhs()?;
                            return Ok(Basic::Cmp { lhs: Comparable::Func(f), op, rhs });
                        }
                        self.restore(save);
                    }
                    self.check_fn(&f, Use::Test);
                    Ok(Basic::Test { not, test: TestExpr::Func(f) })
                } else if matches!(self.peek(), Some(c) if c.is_ascii_lowercase()) {
                    // a name followed by blanks and '(' is the classic near miss
                    let mut k = 0;
                    while matches!(self.peek_at(k), Some(c) if c.is_ascii_lowercase() || c == '_' || c.is_ascii_digit()) {
                        k += 1;
                    }
                    let mut j = k;
                    while matches!(self.peek_at(j), Some(c) if is_blank(c)) {
                        j += 1;
                    }
                    if j > k && self.peek_at(j) == Some('(') {
                        self.err(Reason::BlankNotAllowed)
                    } else {
                        self.err(Reason::Syntax)
                    }
                } else {
                    self.err(Reason::Syntax)
                }
            }
        }
    }

    /// well-typedness of one function expression in its context of use (RFC 9535 2.4.3)
    fn check_fn(&mut self, f: &FuncCall, u: Use) {
        let (params, res) = match fn_sig(&f.name) {
            Some(s) => s,
            None => return, // unknown: OutOfScope, decided by the caller
        };
        match u {
            Use::Compared => {
                if res != Ty::Value {
                    self.sem_err(Reason::FnResultCompared);
                }
            }
            Use::Test => {
                if res == Ty::Value {
                    self.sem_err(Reason::FnResultAsTest);
                }
            }
            Use::Arg => {}
        }
        if f.args.len() != params.len() {
            self.sem_err(Reason::FnArity);
            return;
        }
        for (a, t) in f.args.iter().zip(params.iter()) {
            match (a, t) {
                (Arg::Lit(_), Ty::Value) => {}
                (Arg::Lit(_), _) => self.sem_err(Reason::FnArgType),
                (Arg::Query(q), Ty::Value) => {
                    if !q.is_singular() {
                        self.sem_err(Reason::FnArgType)
                    }
                }
                (Arg::Query(_), _) => {}
                (Arg::Logical(_), Ty::Logical) => {}
                (Arg::Logical(_), _) => self.sem_err(Reason::FnArgType),
                (Arg::Func(g), t) => self.check_fn_arg_result(g, *t),
            }
        }
    }

    fn check_fn_arg_result(&mut self, g: &FuncCall, t: Ty) {
        // nested function expressions had their own arguments checked when parsed as a test
        // (fn_arg parses through basic()); here only the result type in argument position counts.
        if let Some((_, res)) = fn_sig(&g.name) {
            let ok = match t {
                Ty::Value => res == Ty::Value,
                Ty::Nodes => res == Ty::Nodes,
                Ty::Logical => res == Ty::Logical || res == Ty::Nodes,
            };
            if !ok {
                self.sem_err(Reason::FnArgType);
            }
        }
    }
}

#[derive(Clone, Copy)]
enum Use {
    Compared,
    Test,
    /// whole function argument: the parent checks the result type against its parameter
    Arg,
}

/// Parses and classifies one string.
pub fn analyze(text: &str) -> Parsed {
    let chars: Vec<char> = text.chars().collect();
    analyze_chars(&chars)
}

pub fn analyze_chars(chars: &[char]) -> Parsed {
    let mut p = P { s: chars, pos: 0, info: SpellInfo::default(), depth: 0, sem: None, pending: None };
    let res: R<Query> = (|| {
        if !p.eat('$') {
            return p.err(Reason::Syntax);
        }
        let (segments, _) = p.segments()?;
        if p.pos != chars.len() {
            if chars[p.pos..].iter().all(|c| is_blank(*c)) {
                return p.err(Reason::BlankNotAllowed);
            }
            // blank between a name and something that would otherwise continue it, etc.
            if is_blank(chars[p.pos]) {
                return p.err(Reason::BlankNotAllowed);
            }
            return p.err(Reason::Syntax);
        }
        Ok(Query { root: Root::Root, segments })
    })();
    let info = p.info.clone();
    match res {
        Err(e) if e.reason == Reason::TooDeep => Parsed {
            class: Class::Unsettled("depth"),
            ast: None,
            info,
            syntax_ok_strict: None,
            syntax_ok_u1: None,
            err_pos: Some(e.pos),
        },
        Err(e) => {
            // a function test that was mis-typed is recorded in `sem`, but a syntax error wins;
            // NonSingularInComparison / LiteralAsTest are syntax errors of the ABNF as well
            Parsed {
                class: Class::Invalid(e.reason),
                ast: None,
                info,
                syntax_ok_strict: Some(false),
                syntax_ok_u1: Some(false),
                err_pos: Some(e.pos),
            }
        }
        Ok(q) => {
            let unknown = info
                .fn_names
                .iter()
                .find(|n| !RFC_FUNCS.contains(&n.as_str()))
                .cloned();
            let class = if let Some(n) = unknown {
                Class::OutOfScope(n)
            } else if let Some(e) = &p.sem {
                Class::Invalid(e.reason)
            } else if info.u1 {
                Class::Unsettled("U1")
            } else if info.u2 {
                Class::Unsettled("U2")
            } else {
                Class::Valid
            };
            let strict = !info.u1;
            Parsed {
                class,
                ast: Some(q),
                info,
                syntax_ok_strict: Some(strict),
                syntax_ok_u1: Some(true),
                err_pos: p.sem.as_ref().map(|e| e.pos),
            }
        }
    }
}

#[cfg(test)]
mod tests {
    use super::*;
    fn cls(s: &str) -> Class {
        analyze(s).class
    }
    #[test]
    fn basics() {
        for s in [
            "$", "$.a", "$['a']", "$[\"a\"]", "$[0]", "$[-1]", "$[1:2]", "$[::2]", "$[ 1 : 2 : 3 ]", "$[:]", "$[1:]", "$.*", "$..*", "$..a", "$..[0]",
            "$[?@.a]", "$[?(@.a)]", "$[?@.a==1]", "$[?@.a == 'x' && @.b != 2 || !@.c]", "$[?length(@.a) > 2]", "$[?count(@.*) == 1]",
            "$[?match(@.a, 'x.*')]", "$[?value(@..c) == 1]", "$[?@[?@.a]]", "$[0, 1]", "$['a','b']", "$ .a", "$.a [0]", "$[?@ .a]",
            "$[?1 == 1]", "$[?-0 == 0]", "$[?1e2 == 100]", "$[?1.5E+2 == 150]", "$['\\u263a']", "$['\\uD834\\uDD1E']", "$[?!(@.a)]", "$[? ! @.a]",
            "$[?@.a==true]", "$[?null==@.a]", "$[?$.a]", "$[?!match(@.a,'b')]", "$[?length(value(@..a))==1]", "$.\u{e9}", "$[?match(@.a, \"b\") || search(@.b, 'c')]",
        ] {
            assert_eq!(cls(s), Class::Valid, "{}", s);
        }
        for (s, r) in [
            ("", Reason::Syntax),
            ("a", Reason::Syntax),
            ("$ ", Reason::BlankNotAllowed),
            (" $", Reason::Syntax),
            ("$. a", Reason::BlankNotAllowed),
            ("$.. a", Reason::BlankNotAllowed),
            ("$[01]", Reason::LeadingZero),
            ("$[-0]", Reason::MinusZero),
            ("$[9007199254740992]", Reason::IntRange),
            ("$['\\x']", Reason::BadEscape),
            ("$['\\uD800']", Reason::LoneSurrogate),
            ("$['a\tb']", Reason::ControlChar),
            ("$[?@.* == 1]", Reason::NonSingularInComparison),
            ("$[?1]", Reason::LiteralAsTest),
            ("$[?length(@.a)]", Reason::FnResultAsTest),
            ("$[?match(@.a,'b')==true]", Reason::FnResultCompared),
            ("$[?length(@.*) == 1]", Reason::FnArgType),
            ("$[?count(1) == 1]", Reason::FnArgType),
            ("$[?length(@.a, 1) == 1]", Reason::FnArity),
            ("$[?length (@.a) == 1]", Reason::BlankNotAllowed),
            ("$[?@[9007199254740992] == 1]", Reason::IntRange),
            ("$.a b", Reason::BlankNotAllowed),
            ("$[?!@.a == 1]", Reason::Syntax),
            ("$[?(@.a) == 1]", Reason::Syntax),
            ("$['a'", Reason::Syntax),
            ("$[?@.a = 1]", Reason::Syntax),
            ("$[1:2:3:4]", Reason::Syntax),
            ("$[?@.a == 01]", Reason::LeadingZero),
            ("$[?@.a == 1.]", Reason::Syntax),
            ("$['\\\"']", Reason::BadEscape),
        ] {
            assert_eq!(cls(s), Class::Invalid(r), "{}", s);
        }
        assert!(matches!(cls("$[?foo(@.a)]"), Class::OutOfScope(_)));
        assert!(matches!(cls("$[?in(@.a, $.b)]"), Class::OutOfScope(_)));
        assert_eq!(cls("$[?@[ 'a' ] == 1]"), Class::Unsettled("U1"));
        assert_eq!(cls("$[?@.a == 1e400]"), Class::Unsettled("U2"));
    }
}
