#!/usr/bin/env bash
# usage: confirm_demo.sh <id> <demo.rs> <patch.diff>
# Verifies in a scratch worktree of /repo HEAD: demo passes without the patch, fails with it, and
# the existing suite passes with it. Prints one line: <id> without=<p/f> with=<p/f> suite=<p/f>
set -u
id="$1"; demo="$2"; patch="$3"; wt=/tmp/wt-confirm-$id
cd /repo && git worktree add -q --detach "$wt" HEAD || { echo "$id worktree-failed"; exit 2; }
cp /repo/Cargo.lock "$wt"/ 2>/dev/null
mkdir -p "$wt/tests"; cp "$demo" "$wt/tests/demo.rs"
cd "$wt"
export CARGO_TARGET_DIR="$wt/target"
r() { if cargo test --offline --test demo >"$wt/out.$1" 2>&1; then echo pass; else if grep -q "^test result: FAILED\|panicked\|test result: FAILED" "$wt/out.$1"; then echo fail; else echo "error($(grep -m1 '^error' $wt/out.$1 | cut -c1-80))"; fi; fi; }
without=$(r without)
if git apply "$patch" 2>/dev/null || git apply --3way "$patch" 2>/dev/null; then
  with=$(r with)
  rm -f tests/demo.rs
  if cargo test --offline --workspace --no-fail-fast >"$wt/out.suite" 2>&1 && [ "$(grep -c '^test result: ok' $wt/out.suite)" -ge 2 ]; then suite=pass; else suite=fail; fi
  n=$(grep -E "^test result" "$wt/out.suite" | head -2 | sed -E 's/test result: ok\. ([0-9]+) passed.*/\1/' | tr '\n' '+')
else with=apply-failed; suite=-; n=-; fi
echo "$id without=$without with=$with suite=$suite($n)"
cd /repo && git worktree remove --force "$wt"; git worktree prune
