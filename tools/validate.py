#!/usr/bin/env python3
"""Validates MANIFEST.json and the evidence files against the schemas (tooling venv has jsonschema)."""
import json, sys, glob
from jsonschema import validate
validate(json.load(open('/verif/MANIFEST.json')), json.load(open('/root/.vp/MANIFEST.schema.json')))
n=0
for f in sorted(glob.glob('/verif/evidence/*.json')):
    validate(json.load(open(f)), json.load(open('/root/.vp/EVIDENCE.schema.json'))); n+=1
print('manifest valid;', n, 'evidence files valid')
