#!/usr/bin/env bash
# usage: try_mutant.sh <patch.diff> <prop> [<prop>...]   (env TIER=quick|thorough)
# Applies a seeded change to /repo, runs the named checks, and undoes the change straight away.
set -u
patch="$1"; shift
cd /repo || exit 2
if [ -n "$(git status --porcelain --untracked-files=no)" ]; then echo "repo not clean"; exit 2; fi
if ! git apply --3way "$patch" 2>/tmp/apply.err; then
  if ! git apply "$patch" 2>>/tmp/apply.err; then echo "APPLY-FAILED $(head -3 /tmp/apply.err)"; git reset -q --hard HEAD; exit 3; fi
fi
git reset -q
for p in "$@"; do
  out="$(cd /verif && ./vf check "$p" "${TIER:-quick}" 2>&1)"; code=$?
  echo "== $p exit=$code $(echo "$out" | grep -c '^VIOLATION') violation lines"
  echo "$out" | grep -A1 '^VIOLATION' | grep 'what:' | head -3 | cut -c1-260
  echo "$out" | grep 'HARNESS-ERROR' | head -3
done
git checkout -q -- . 
git status --porcelain --untracked-files=no
