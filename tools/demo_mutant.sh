#!/usr/bin/env bash
# usage: demo_mutant.sh <dir with patch.diff demo.rs>  -- runs the demonstration in a scratch worktree of /repo HEAD,
# with and without the patch, and the existing test suite with the patch. Removes the worktree afterwards.
set -u
d="$1"; wt=/tmp/wt-demo-$$
cd /repo && git worktree add -q --detach "$wt" HEAD || exit 2
cp /repo/Cargo.lock "$wt"/ 2>/dev/null
mkdir -p "$wt/tests"; cp "$d/demo.rs" "$wt/tests/demo.rs"
cd "$wt"
echo "-- demo WITHOUT patch:"; cargo test --offline --test demo 2>&1 | grep -E "^test result|error" | head -3
if git apply --3way "$d/patch.diff" 2>/dev/null || git apply "$d/patch.diff"; then
  echo "-- demo WITH patch:"; cargo test --offline --test demo 2>&1 | grep -E "^test result|error" | head -3
  rm -f tests/demo.rs
  echo "-- suite WITH patch:"; cargo test --offline --workspace --no-fail-fast 2>&1 | grep -E "^test result" | head -3
else echo "APPLY-FAILED"; fi
cd /repo && git worktree remove --force "$wt"; git worktree prune
