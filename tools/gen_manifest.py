#!/usr/bin/env python3
"""Writes /verif/MANIFEST.json from the table below (kept in one place so that it stays valid)."""
import json, subprocess
HOOK_COMMITS = subprocess.run(["git","-C","/repo","log","--format=%H %s"],capture_output=True,text=True).stdout.splitlines()
hooks=[l.split()[0] for l in HOOK_COMMITS if "verif-hooks" in l]
BUILT = ["C%02d"%i for i in range(1,16)]
COMMON_TRUST = "Trusted: the oracles in /verif/harness/oracle (written from RFC 9535, self-tested against the RFC's example tables and cross-checked against each other at the start of every run), serde_json, regex. Open known findings (known_findings.json) are excluded only through input-side trigger predicates / exact effect models whose witnesses are replayed first."
ALL = {
 "C01": ("differential runtime monitor: results mapped to document locations by node address vs reference evaluator (multiset) + H1 segment-event trace check of every step",
         "Held on every execution produced: exhaustive product of a 2-segment query family with all small documents, plus seeded random queries x documents; each returned reference must be a node of the caller's document (address map) and the multiset of locations must equal the reference evaluator's nodelist; sampled executions are also checked step by step from the H1 hook events. Exhaustive only inside the stated bounds.", "4/C01"),
 "C02": ("differential runtime monitor on result order: canonical sequence, then permissive trace checker over H1 segment events (RFC partial order for descendants); exact effect model for the known union-order finding",
         "Held on every execution produced (C01's workload + an order-stress family): the result sequence equals the reference's document order or, for descendant segments, is consistent with the partial order RFC 9535 allows, judged from the observed per-segment input/output node lists; multiplicities equal.", "4/C02"),
 "C03": ("runtime monitor: reported path vs Normalized Path rendered from the location found by node address; oracle-free bijection and re-query round trip",
         "Held on every execution produced: every (route to a node) x (class of member name) combination over three nesting shapes plus random queries over documents with hostile names; path = Normalized Path of the node found by address, equal paths <=> same node, each reported path re-queried returns exactly that node.", "4/C03"),
 "C04": ("exhaustive runtime monitor of the comparison table at the API boundary (both polarities), operator laws on observed outcomes, H3 comparison events",
         "Exhaustive over a 41-element value universe (all ordered pairs incl. Nothing) x 6 operators x operand forms; each observed truth value equals RFC 9535 2.3.5.2.2, the derived-operator/trichotomy laws hold on the observed outcomes, and every comparison actually performed (H3 events, also when masked by ||) agrees with the table.", "4/C04"),
 "C05": ("runtime monitor: enumerated Boolean formulas x valuation carrier vs reference, oracle-free Boolean laws between rewritings, H2 per-child filter decisions at every nesting level",
         "Held on every execution produced: all formulas of an enumerated family (and sampled deeper ones) over a carrier realising all valuations incl. falsy/empty values, existence tests, nested-filter scoping queries; kept children equal the reference in order; logically equivalent rewritings select the same children; millions of H2 per-child decisions agree with the reference.", "4/C05"),
 "C06": ("runtime monitor with two independent recognisers (ABNF set-matcher, hand parser + validity) as oracle: ABNF-derived sentences, all-spellings renderings, exhaustive short strings",
         "Every string the two recognisers classify Valid (exhaustive over all strings up to the stated length over two alphabets; sampled derivations/renderings beyond) is accepted by parse_json_path and query().", "4/C06"),
 "C07": ("runtime monitor with two independent recognisers as oracle: exhaustive short strings, named near misses, single-edit mutants of valid sentences",
         "Every string classified Invalid (with a reason code) is rejected; exhaustive over the short-string families, sampled over single-edit mutants. Strings in the unsettled zones (U1, U2, undefined function names) are not judged.", "4/C07"),
 "C10": ("runtime monitor: function sweeps vs reference evaluator with regex oracle; H4 function-application events checked against each function's definition",
         "Held on every execution produced: length/count/value over every JSON type and node-list shape, match/search over a pattern grammar x all short subject strings (pattern as literal and from the document, both polarities, invalid patterns, non-strings); each application observed through H4 agrees with the definition.", "4/C10"),
 "C11": ("exhaustive runtime monitor of the slice/index cube in nine contexts, large-array slices, ragged tables and results beyond 2^20 nodes, in isolated workers under release and overflow-checked builds; CPU-time termination watchdog",
         "Exhaustive over the stated (length, start, end, step) cube and index range in several contexts, parsed and programmatic, plus extremes at the edge of the I-JSON range; results equal RFC 9535 2.3.4.2.2 (i128 transcription), no panic in the overflow-checked build, every case terminates within its CPU budget.", "4/C11"),
 "C08": ("crash / CPU-time monitor: isolated worker processes (BEGIN/END case log, deaths attributed to the open case, CPU-time budget from /proc) under release and overflow-checked builds on an 8 MiB stack (flat chains on 2 MiB), required ladder rungs also in an unoptimised build, blocked workers detected (no CPU for 30 s); nesting ladders",
         "Held on every execution produced: valid/near-valid/arbitrary strings, extreme integers at every integer position, programmatic queries, hostile documents, regex stress and nesting ladders through every public entry point; no panic, no worker death, no case above 30 CPU-seconds, no Err from evaluating a parsed query. Required nesting bounds are enforced; failures beyond them are explored and compared with recorded known findings.", "4/C08"),
 "C09": ("runtime monitor: reference/reference_mut vs the address map and a location-based model update (frame condition), non-existent paths, update histories, round trip of the paths the library itself reports",
         "Held on every execution produced: every location of small exhaustive, hostile-name, curated and random documents resolves to exactly its node, through the Normalized Path rendered by the reference and through the path the library itself reports for it ($..* / $.*, sampled); ten kinds of non-existent paths answer None; writes through reference_mut equal our own update of a copy (nothing else changed); random update histories over all paths of a query stay equal to the model.", "4/C09"),
 "C12": ("runtime monitor over histories and schedules: entry-point agreement, fresh-process baselines per (query, document), random histories with allocation churn / reused parsed query / mutation, barrier-started threads with hook-injected yields, compile-time Send+Sync probe",
         "Held on every execution produced: the four entry points agree position by position incl. errors; every occurrence of a pair in random histories (built to collide under plausible cache keys) and in 2-16-thread schedules equals the result a fresh process computes; the document is unchanged. Schedules are sampled, not enumerated (distinct interleavings counted in the evidence).", "4/C12"),
 "C13": ("oracle-free runtime monitor: results (node addresses) of every RFC-equivalent spelling of one AST compared with the canonical spelling",
         "Held on every execution produced: curated and random ASTs rendered in every equivalent spelling (name styles, wildcard forms, parentheses, quotes, escapes, every S slot x each blank, all 3^k blank combinations for k <= 6, number spellings) select the same nodes in the same order as the canonical spelling.", "4/C13"),
 "C15": ("differential runtime monitor between instantiations of the generic engine: serde_json::Value vs three further Queryable implementations (strict int/float accessors with 120-byte nodes; all numbers f64; shared subtrees with a tolerant PartialEq) and a re-ordered view vs the reference evaluator",
         "Held on every execution produced: the same queries over VecJson (strictly separate int/float accessors, ordered members, Default != null) and F64Json (all numbers f64) give the same paths and deep-equal values as over serde_json::Value; a view with another member order agrees with the reference evaluator over that view.", "4/C15"),
 "C14": ("exhaustive runtime monitor over all pairs of small arrays; complement laws on observed results; H4 events",
         "Exhaustive over all 156^2 ordered pairs of arrays of length <= 3 over a 5-element universe x 5 functions (plus value sweeps, nested random arrays, missing and non-array arguments); truth values equal the set-theoretic definitions, complement laws hold, ill-typed calls are false.", "4/C14"),
}
CHECKS = {k:(v[0],v[1],COMMON_TRUST,v[2]) for k,v in ALL.items() if k in BUILT}
NOT_YET = {}
props=[json.loads(l) for l in open('/verif/properties.jsonl')]
checks=[]; na=[]
for p in props:
    i=p['id']
    if i in CHECKS:
        tech,text,note,ref=CHECKS[i]
        checks.append({"property_id":i,"quick_cmd":f"./vf check {i} quick","thorough_cmd":f"./vf check {i} thorough",
          "evidence_file":f"/verif/evidence/{i}.json","replay_cmd_template":"./vf replay {path}","engine":"vfmon",
          "level_claimed":{"category":"exploration","text":text,"design_ref":"DESIGN.md section "+ref},
          "level_note":note,"technique":tech})
    else:
        na.append({"property_id":i,"reason":NOT_YET.get(i,"check under construction in this revision (runtime monitor planned, DESIGN.md section 4); not claimed until it runs silent on the unchanged tree")})
m={"version":1,"setup_cmd":"./vf setup",
 "hooks":{"guard":"cargo feature verif-hooks","enable":"jsonpath-rust = { path = \"/repo\", features = [\"verif-hooks\"] } (harness/mon/Cargo.toml); ./vf rebuilds from /repo's working tree on every check",
          "baseline_off_cmd":"cd /repo && cargo test --workspace --no-fail-fast --offline","source_commits":hooks,"add_only":True},
 "engines":[{"name":"vfmon","path":"/verif/harness","serves_properties":sorted(CHECKS.keys()),"kind_free_text":"Rust harness (oracle crate written from RFC 9535 + monitor crate linked against /repo with hooks on); runtime monitoring: differential oracles at the API boundary, hook-event trace checkers, isolated crash/CPU-time worker, sanitizer shards"}],
 "checks":checks,"not_applicable":na,
 "notes":"Exit codes: 0 held, 1 violation (VIOLATION line + replay file), 2 harness error (never a verdict). Known findings: /verif/known_findings.json. Seeded changes used to validate the checks: /verif/seeded/."}
json.dump(m,open('/verif/MANIFEST.json','w'),indent=1)
print("checks:",[c['property_id'] for c in checks],"na:",len(na))
