#!/usr/bin/env python3
"""Writes /verif/MANIFEST.json from the table below (kept in one place so that it stays valid)."""
import json, subprocess
HOOK_COMMITS = subprocess.run(["git","-C","/repo","log","--format=%H %s"],capture_output=True,text=True).stdout.splitlines()
hooks=[l.split()[0] for l in HOOK_COMMITS if "verif-hooks" in l]
CHECKS = {
 "C01": ("differential runtime monitor: library result mapped to document locations by node address vs reference evaluator (multiset), plus H1 segment-event trace check",
         "Held on every execution produced: exhaustive product of a 2-segment query family with all small documents, plus seeded random queries x documents; each returned reference must be a node of the caller's document (address map) and the multiset of locations must equal the RFC 9535 reference evaluator's nodelist. Exploration, not proof: exhaustive only inside the stated bounds.",
         "Trusted: reference evaluator transcribed from RFC 9535 (self-tested against the RFC's example tables at start-up), serde_json, the address map walk. Open known findings (escape decoding) are excluded by trigger predicates, see known_findings.json.",
         "4/C01"),
 "C02": ("differential runtime monitor on result order: canonical sequence comparison, then permissive trace checker over H1 segment events (RFC partial order for descendants); exact effect model for the known union-order finding",
         "Held on every execution produced (same workload as C01 plus an order-stress family): the result sequence equals the reference's document order, or, for descendant segments, is consistent with the partial order RFC 9535 allows as judged from the observed per-segment input/output node lists; multiplicities equal.",
         "Trusted: as C01. The pinned selector-major union order is an open known finding with an exact effect model (any other order defect still fires).",
         "4/C02"),
}
NOT_YET = {}
props=[json.loads(l) for l in open('/verif/properties.jsonl')]
checks=[]; na=[]
for p in props:
    i=p['id']
    if i in CHECKS:
        tech,text,note,ref=CHECKS[i]
        checks.append({"property_id":i,"quick_cmd":f"./vf check {i} quick","thorough_cmd":f"./vf check {i} thorough",
          "evidence_file":f"/verif/evidence/{i}.json","replay_cmd_template":"./vf replay {path}","engine":"vfmon",
          "level_claimed":{"category":"exploration","text":text,"design_ref":"DESIGN.md section "+ref},
          "level_note":note,"technique":tech})
    else:
        na.append({"property_id":i,"reason":NOT_YET.get(i,"check under construction in this revision (runtime monitor planned, DESIGN.md section 4); not claimed until it runs silent on the unchanged tree")})
m={"version":1,"setup_cmd":"./vf setup",
 "hooks":{"guard":"cargo feature verif-hooks","enable":"jsonpath-rust = { path = \"/repo\", features = [\"verif-hooks\"] } (harness/mon/Cargo.toml); ./vf rebuilds from /repo's working tree on every check",
          "baseline_off_cmd":"cd /repo && cargo test --workspace --no-fail-fast --offline","source_commits":hooks,"add_only":True},
 "engines":[{"name":"vfmon","path":"/verif/harness","serves_properties":sorted(CHECKS.keys()),"kind_free_text":"Rust harness (oracle crate written from RFC 9535 + monitor crate linked against /repo with hooks on); runtime monitoring: differential oracles at the API boundary, hook-event trace checkers, isolated crash/CPU-time worker, sanitizer shards"}],
 "checks":checks,"not_applicable":na,
 "notes":"Exit codes: 0 held, 1 violation (VIOLATION line + replay file), 2 harness error (never a verdict). Known findings: /verif/known_findings.json. Seeded changes used to validate the checks: /verif/seeded/."}
json.dump(m,open('/verif/MANIFEST.json','w'),indent=1)
print("checks:",[c['property_id'] for c in checks],"na:",len(na))
