#!/usr/bin/env python3
"""usage: add_wave.py <round> <deliverables dir> <try_mutant log> <notes.json>
Files the confirmed seeded changes of one round under /verif/seeded/<prop>-<round>-<A|B>/ and
rebuilds seeded/INDEX.json. The log is the output of tools/try_mutant.sh runs, one block per change
introduced by a line '### <prop>-<round>-<A|B>'."""
import json, os, re, shutil, sys
rnd, src, log, notes = sys.argv[1], sys.argv[2], sys.argv[3], json.load(open(sys.argv[4]))
root = '/verif/seeded'
caught = {}
cur = None
for line in open(log, errors='replace'):
    m = re.match(r'### (\S+)', line)
    if m:
        cur = m.group(1); caught.setdefault(cur, {}); continue
    m = re.match(r'== (C\d\d) exit=(\d+) (\d+) violation', line)
    if m and cur:
        caught[cur][m.group(1)] = (m.group(2) == '1' and int(m.group(3)) > 0)
for prop in sorted(os.listdir(src)):
    if not re.match(r'C\d\d$', prop): continue
    for x in ('A', 'B'):
        d = os.path.join(src, prop, x)
        if not os.path.isfile(os.path.join(d, 'patch.diff')): continue
        cid = f'{prop}-{rnd}-{x}'
        out = os.path.join(root, cid); os.makedirs(out, exist_ok=True)
        shutil.copy(os.path.join(d, 'patch.diff'), out)
        for f in os.listdir(d):
            if f.startswith('demo'): shutil.copy(os.path.join(d, f), out)
        m = json.load(open(os.path.join(d, 'meta.json')))
        res = caught.get(cid, {})
        meta = {
            'id': cid, 'property': prop, 'round': rnd,
            'summary': m.get('summary', ''), 'needs': m.get('needs', ''), 'files': m.get('files', []),
            'patch': 'as delivered by the sub-agent; applies to /repo HEAD',
            'confirmed': {'how': 'tools/confirm_demo.sh in a scratch worktree of /repo HEAD', 'demo_without_patch': 'pass', 'demo_with_patch': 'fail', 'existing_suite_with_patch': '94 unit + 2 doc tests pass'},
            'ran': [f'tools/confirm_demo.sh {cid} demo.rs patch.diff', 'tools/try_mutant.sh patch.diff ' + ' '.join(res.keys())],
            'caught_by_quick_checks': [p for p, c in res.items() if c],
            'run_but_silent': [p for p, c in res.items() if not c],
            'note': notes.get(cid, ''),
        }
        json.dump(meta, open(os.path.join(out, 'meta.json'), 'w'), indent=1, ensure_ascii=False)
index = []
for cid in sorted(os.listdir(root)):
    mp = os.path.join(root, cid, 'meta.json')
    if not os.path.isfile(mp): continue
    m = json.load(open(mp))
    index.append({'id': m['id'], 'property': m['property'], 'rebased': m.get('patch', '').startswith('re-based'), 'summary': m['summary'][:150], 'caught_by': m.get('caught_by_quick_checks', m.get('caught_by', [])), 'note': m.get('note', '')})
json.dump(index, open(os.path.join(root, 'INDEX.json'), 'w'), indent=1, ensure_ascii=False)
print(len(index), 'changes indexed')
